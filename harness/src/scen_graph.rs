//! Beyond the listed properties: the graph commands of the `fst` CLI (`csv edges`, `csv nodes`,
//! `dot`, `node`), judged by TLC against the node graph that the format description decodes
//! from the same bytes (Trace_Graph.tla).  The recorder only parses what the binary printed.

use crate::common::*;
use rand::rngs::StdRng;
use rand::Rng;
use serde_json::{json, Value};
use std::path::Path;
use std::process::Command;

/// Bytes that may appear in keys: all of them (CSV quoting and raw line feeds are parsed).
fn key_bytes() -> Vec<u8> {
    (0u16..256).map(|b| b as u8).collect()
}

fn gen_items(r: &mut StdRng, shape: usize) -> Vec<Kv> {
    let all = key_bytes();
    let small: Vec<u8> = b"abcx".to_vec();
    let odd: Vec<u8> = vec![0, b'\n', b'\r', b'"', b',', b' ', b'(', b')', b'-', b'>', b'/', b'\\', b'\'', 0x7f, 0x80, 0xc3, 0xff, b'a'];
    let mut keys: Vec<Vec<u8>> = vec![];
    match shape {
        0 => {}
        1 => keys.push(vec![]),
        2 => {
            // wide root: more than 32 transitions (a node with an index)
            let n = r.gen_range(33, 120);
            let mut pool = all.clone();
            for _ in 0..n {
                let i = r.gen_range(0, pool.len());
                let b = pool.swap_remove(i);
                let mut k = vec![b];
                if r.gen_range(0, 3) == 0 {
                    k.push(*pick(r, &small));
                }
                keys.push(k);
            }
        }
        3 => {
            for _ in 0..r.gen_range(1, 40) {
                keys.push((0..r.gen_range(0, 5)).map(|_| *pick(r, &odd)).collect());
            }
        }
        4 => {
            // one long chain and a few branches off it
            let chain: Vec<u8> = (0..r.gen_range(5, 40)).map(|_| *pick(r, &small)).collect();
            for _ in 0..r.gen_range(0, 6) {
                let cut = r.gen_range(0, chain.len());
                let mut k = chain[..cut].to_vec();
                k.push(*pick(r, &all));
                keys.push(k);
            }
            keys.push(chain);
        }
        _ => {
            for _ in 0..*pick(r, &[1usize, 3, 10, 40, 120]) {
                keys.push((0..r.gen_range(0, 6)).map(|_| *pick(r, &small)).collect());
            }
        }
    }
    keys.sort();
    keys.dedup();
    let mode = r.gen_range(0, 4);
    keys.into_iter()
        .enumerate()
        .map(|(i, k)| {
            let v = match mode {
                0 => 0,
                1 => i as u64,
                2 => r.gen_range(0, 1000),
                _ => *pick(r, &[0u64, 1, 255, 256, 65535, 1 << 32, (1 << 40) + 7, u64::MAX - 1, u64::MAX]),
            };
            (k, v)
        })
        .collect()
}

fn build_file(path: &Path, items: &[Kv]) -> Vec<u8> {
    let mut b = fst::raw::Builder::memory();
    for (k, v) in items {
        b.insert(k, *v).unwrap();
    }
    let bytes = b.into_inner().unwrap();
    std::fs::write(path, &bytes).unwrap();
    bytes
}

fn num(s: &str) -> Option<u64> {
    if s.is_empty() || !s.bytes().all(|b| b.is_ascii_digit()) {
        return None;
    }
    s.parse().ok()
}

fn jaddr(x: Option<u64>) -> Value {
    match x {
        Some(a) if a < (1 << 31) => json!(a),
        _ => json!(-1),
    }
}

fn jout(x: Option<u64>) -> Value {
    match x {
        Some(v) => ju(v),
        None => json!([999]),
    }
}

/// A byte printed `as char`: its code point, which must be below 256.
fn char_byte(s: &str) -> i64 {
    let mut it = s.chars();
    match (it.next(), it.next()) {
        (Some(c), None) if (c as u32) < 256 => c as u32 as i64,
        _ => -1,
    }
}

/// Inverse of `std::ascii::escape_default` on a prefix of `s`: (byte, rest).
fn unescape(s: &str) -> Option<(u8, &str)> {
    let b = s.as_bytes();
    if b.is_empty() {
        return None;
    }
    if b[0] != b'\\' {
        return if b[0] < 0x80 { Some((b[0], &s[1..])) } else { None };
    }
    if b.len() < 2 {
        return None;
    }
    match b[1] {
        b'x' if b.len() >= 4 => u8::from_str_radix(&s[2..4], 16).ok().map(|v| (v, &s[4..])),
        b't' => Some((b'\t', &s[2..])),
        b'r' => Some((b'\r', &s[2..])),
        b'n' => Some((b'\n', &s[2..])),
        b'\\' | b'\'' | b'"' => Some((b[1], &s[2..])),
        _ => None,
    }
}

/// CSV records as the `csv` crate writes them: a field is quoted when it contains `,` `"` CR or
/// LF, with `"` doubled inside quotes.
fn csv_rows(out: &[u8]) -> Vec<Vec<String>> {
    let text = String::from_utf8_lossy(out).to_string();
    let cs: Vec<char> = text.chars().collect();
    let mut rows = vec![];
    let mut row: Vec<String> = vec![];
    let mut field = String::new();
    let mut i = 0;
    let mut quoted = false;
    let mut any = false;
    while i < cs.len() {
        let c = cs[i];
        if quoted {
            if c == '"' {
                if i + 1 < cs.len() && cs[i + 1] == '"' {
                    field.push('"');
                    i += 1;
                } else {
                    quoted = false;
                }
            } else {
                field.push(c);
            }
        } else if c == '"' && field.is_empty() {
            quoted = true;
            any = true;
        } else if c == ',' {
            row.push(std::mem::take(&mut field));
            any = true;
        } else if c == '\n' {
            if any || !field.is_empty() {
                row.push(std::mem::take(&mut field));
                rows.push(std::mem::take(&mut row));
            }
            any = false;
        } else {
            field.push(c);
            any = true;
        }
        i += 1;
    }
    if any || !field.is_empty() {
        row.push(field);
        rows.push(row);
    }
    rows
}

fn run(fst_bin: &str, args: &[&str]) -> (i32, Vec<u8>) {
    let (o, timed_out) = output_within(Command::new(fst_bin).args(args), 30);
    (if timed_out { -2 } else { o.status.code().unwrap_or(-1) }, o.stdout)
}

fn edges_ev(log: &mut Log, fst_bin: &str, f: &str, bytes: &[u8]) {
    let (exit, out) = run(fst_bin, &["csv", "edges", f]);
    let rows = csv_rows(&out);
    let header = rows.first().map(|r| r.join(",")).unwrap_or_default();
    let body: Vec<Value> = rows
        .iter()
        .skip(1)
        .map(|r| {
            if r.len() != 4 {
                return json!([-1, -1, -1, [999]]);
            }
            json!([jaddr(num(&r[0])), jaddr(num(&r[1])), char_byte(&r[2]), jout(num(&r[3]))])
        })
        .collect();
    log.ev(json!({"ev": "GEdges", "bytes": jb(bytes), "exit": exit, "header": header, "rows": body}));
}

fn nodes_ev(log: &mut Log, fst_bin: &str, f: &str, bytes: &[u8]) {
    let (exit, out) = run(fst_bin, &["csv", "nodes", f]);
    let rows = csv_rows(&out);
    let header = rows.first().map(|r| r.join(",")).unwrap_or_default();
    let body: Vec<Value> = rows
        .iter()
        .skip(1)
        .map(|r| {
            if r.len() != 6 {
                return json!([-1, "", -1, -1, "", [999]]);
            }
            json!([jaddr(num(&r[0])), r[1], jaddr(num(&r[2])), jaddr(num(&r[3])), r[4], jout(num(&r[5]))])
        })
        .collect();
    log.ev(json!({"ev": "GNodes", "bytes": jb(bytes), "exit": exit, "header": header, "rows": body}));
}

fn dot_ev(log: &mut Log, fst_bin: &str, f: &str, bytes: &[u8], names: bool) {
    let (exit, out) = if names { run(fst_bin, &["dot", f, "--state-names"]) } else { run(fst_bin, &["dot", f]) };
    let text = String::from_utf8_lossy(&out).to_string();
    let mut nodes = vec![];
    let mut edges = vec![];
    let mut other = 0usize;
    let mut closed = false;
    for line in text.split('\n') {
        let t = line.strip_prefix("    ").unwrap_or("\u{1}");
        if let Some(i) = t.find(" -> ") {
            // A -> B [label="L"];
            let a = num(&t[..i]);
            let rest = &t[i + 4..];
            let parsed = rest.find(" [label=\"").and_then(|j| {
                let b = num(&rest[..j]);
                let lab = rest[j + 9..].strip_suffix("\"];")?;
                let (inp, tail) = unescape(lab)?;
                let outv = if tail.is_empty() { None } else { Some(num(tail.strip_prefix('/')?)?) };
                Some(json!([jaddr(a), jaddr(b), inp, outv.is_some(), ju(outv.unwrap_or(0))]))
            });
            match parsed {
                Some(e) if a.is_some() => edges.push(e),
                _ => other += 1,
            }
        } else if let Some(j) = t.find(" [label=\"") {
            let a = num(&t[..j]);
            let rest = &t[j + 9..];
            let (lab, fin) = if let Some(l) = rest.strip_suffix("\",peripheries=2];") {
                (l, true)
            } else if let Some(l) = rest.strip_suffix("\"];") {
                (l, false)
            } else {
                other += 1;
                continue;
            };
            let label = if lab.is_empty() { json!([]) } else { json!([jaddr(num(lab))]) };
            nodes.push(json!([jaddr(a), label, fin]));
        } else if line == "}" {
            closed = true;
        } else if line.trim().is_empty() || line.trim() == "digraph automaton {" || line.trim().starts_with("label") || line.trim().starts_with("rankdir") {
        } else {
            other += 1;
        }
    }
    log.ev(json!({"ev": "GDot", "bytes": jb(bytes), "names": names, "exit": exit, "nodes": nodes, "edges": edges, "other": other, "closed": closed}));
}

fn node_ev(log: &mut Log, fst_bin: &str, f: &str, bytes: &[u8], addr: usize) {
    let (exit, out) = run(fst_bin, &["node", f, &addr.to_string()]);
    let text = String::from_utf8_lossy(&out).to_string();
    let lines: Vec<&str> = text.split('\n').collect();
    let field = |i: usize, pre: &str| -> Option<&str> { lines.get(i).and_then(|l| l.strip_prefix(pre)) };
    let start = field(0, "NODE@").and_then(num);
    let end = field(1, "  end_addr: ").and_then(num);
    let size = field(2, "  size: ").and_then(|s| s.strip_suffix(" bytes")).and_then(num);
    // state: OneTransNext(StateOneTransNext(203)) | EmptyFinal
    let st = field(3, "  state: ").unwrap_or("");
    let (sname, sbyte) = match st.find('(') {
        Some(i) => {
            let inner = &st[i + 1..];
            let b = inner.find('(').and_then(|j| num(inner[j + 1..].trim_end_matches(')')));
            (st[..i].to_string(), json!([jaddr(b)]))
        }
        None => (st.to_string(), json!([])),
    };
    let is_final = field(4, "  is_final: ").unwrap_or("").to_string();
    let fout = field(5, "  final_output: Output(").and_then(|s| s.strip_suffix(")")).and_then(num);
    let ntrans = field(6, "  # transitions: ").and_then(num);
    let head_ok = lines.get(7) == Some(&"  transitions:");
    // the transition lines print the input byte as a raw character (which may be a line feed), so
    // they are parsed by position: "    (c, out) -> addr\n" or "    c -> addr\n"
    let mut trans = vec![];
    let mut bad = 0usize;
    let cs: Vec<char> = match text.find("  transitions:\n") {
        Some(i) => text[i + 15..].chars().collect(),
        None => vec![],
    };
    let digits = |from: usize| -> (Option<u64>, usize) {
        let mut j = from;
        while j < cs.len() && cs[j].is_ascii_digit() {
            j += 1;
        }
        (num(&cs[from..j].iter().collect::<String>()), j)
    };
    let lit = |from: usize, s: &str| -> bool { s.chars().enumerate().all(|(k, c)| cs.get(from + k) == Some(&c)) };
    let mut i = 0;
    while i < cs.len() {
        if i + 1 == cs.len() && cs[i] == '\n' {
            break; // the line feed that writeln! adds after the debug text
        }
        if !lit(i, "    ") {
            bad += 1;
            break;
        }
        let p = i + 4;
        let mut done = false;
        if lit(p, "(") && lit(p + 2, ", ") {
            let (o, j) = digits(p + 4);
            if o.is_some() && lit(j, ") -> ") {
                let (a, j2) = digits(j + 5);
                if a.is_some() && lit(j2, "\n") {
                    trans.push(json!([(cs[p + 1] as u32).min(999), true, ju(o.unwrap()), jaddr(a)]));
                    i = j2 + 1;
                    done = true;
                }
            }
        }
        if !done && p < cs.len() && lit(p + 1, " -> ") {
            let (a, j2) = digits(p + 5);
            if a.is_some() && lit(j2, "\n") {
                trans.push(json!([(cs[p] as u32).min(999), false, ju(0), jaddr(a)]));
                i = j2 + 1;
                done = true;
            }
        }
        if !done {
            bad += 1;
            break;
        }
    }
    log.ev(json!({"ev": "GNode", "bytes": jb(bytes), "addr": jn(addr), "exit": exit, "start": jaddr(start), "end": jaddr(end), "size": jaddr(size),
        "sname": sname, "sbyte": sbyte, "final": is_final, "fout": jout(fout), "ntrans": jaddr(ntrans), "head": head_ok, "trans": trans, "bad": bad}));
}

/// `fst rust FILE NAME`: Rust source with the file as a byte string literal.  The literal is read
/// back the way the Rust lexer reads it (escapes; a backslash at the end of a line skips the line
/// feed and the white space that follows).
fn rust_ev(log: &mut Log, fst_bin: &str, f: &str, bytes: &[u8], name: &str) {
    let (exit, out) = run(fst_bin, &["rust", f, name]);
    let text = String::from_utf8_lossy(&out).to_string();
    let open = format!("const {}_BYTES: &'static [u8] = b\"", name);
    let refers = text.contains(&format!("pub static ref {}: ::fst::raw::Fst", name)) && text.contains(&format!("::fst::raw::Fst::new({}_BYTES).unwrap();", name));
    let maxcol = text.split('\n').map(|l| l.chars().count()).max().unwrap_or(0);
    let mut decoded: Vec<u8> = vec![];
    let mut ok = false;
    if let Some(i) = text.find(&open) {
        let b = text[i + open.len()..].as_bytes();
        let mut j = 0;
        while j < b.len() {
            match b[j] {
                b'"' => {
                    ok = text[i + open.len() + j..].starts_with("\";\n");
                    break;
                }
                b'\\' if j + 1 < b.len() => match b[j + 1] {
                    b'\n' => {
                        j += 2;
                        while j < b.len() && (b[j] == b' ' || b[j] == b'\n' || b[j] == b'\t' || b[j] == b'\r') {
                            j += 1;
                        }
                        continue;
                    }
                    b'x' if j + 3 < b.len() => {
                        match u8::from_str_radix(&String::from_utf8_lossy(&b[j + 2..j + 4]), 16) {
                            Ok(v) => decoded.push(v),
                            Err(_) => break,
                        }
                        j += 4;
                        continue;
                    }
                    b't' => { decoded.push(b'\t'); j += 2; continue; }
                    b'r' => { decoded.push(b'\r'); j += 2; continue; }
                    b'n' => { decoded.push(b'\n'); j += 2; continue; }
                    b'0' => { decoded.push(0); j += 2; continue; }
                    c @ (b'\\' | b'\'' | b'"') => { decoded.push(c); j += 2; continue; }
                    _ => break,
                },
                c if c < 0x80 && c != b'\r' => {
                    decoded.push(c);
                    j += 1;
                }
                _ => break, // not allowed raw inside a byte string literal
            }
        }
    }
    log.ev(json!({"ev": "GRust", "bytes": jb(bytes), "exit": exit, "refers": refers, "literal": ok, "maxcol": maxcol, "decoded": jb(&decoded)}));
}

/// `fst dupes --min M --limit 0`: the three counts.
fn dupes_ev(log: &mut Log, fst_bin: &str, f: &str, bytes: &[u8], min: usize) {
    let (exit, out) = run(fst_bin, &["dupes", f, "--min", &min.to_string(), "--limit", "0"]);
    let text = String::from_utf8_lossy(&out).to_string();
    let get = |tag: &str| -> Value { jaddr(text.lines().find(|l| l.starts_with(tag)).and_then(|l| l.split(':').nth(1)).and_then(|x| num(x.trim()))) };
    log.ev(json!({"ev": "GDupes", "bytes": jb(bytes), "exit": exit, "min": min, "total": get("Total nodes"), "unique": get("Unique nodes"), "dups": get("Nodes with duplicates")}));
}

/// Addresses of the nodes of a file, by the library's own walk (only to choose arguments).
fn node_addrs(bytes: &[u8]) -> Vec<usize> {
    let fst = fst::raw::Fst::new(bytes.to_vec()).unwrap();
    let mut seen = std::collections::BTreeSet::new();
    let mut todo = vec![fst.root().addr()];
    while let Some(a) = todo.pop() {
        if seen.insert(a) {
            for t in fst.node(a).transitions() {
                todo.push(t.addr);
            }
        }
    }
    seen.into_iter().collect()
}

fn all_evs(log: &mut Log, r: &mut StdRng, fst_bin: &str, f: &Path, bytes: &[u8], names: bool, picks: usize) {
    let fs = f.to_str().unwrap();
    edges_ev(log, fst_bin, fs, bytes);
    nodes_ev(log, fst_bin, fs, bytes);
    dot_ev(log, fst_bin, fs, bytes, names);
    rust_ev(log, fst_bin, fs, bytes, if names { "WORDS" } else { "K9" });
    dupes_ev(log, fst_bin, fs, bytes, if names { 1 } else { 0 });
    let addrs = node_addrs(bytes);
    for i in 0..picks.min(addrs.len()) {
        let a = if i == 0 { *addrs.last().unwrap() } else { *pick(r, &addrs) };
        node_ev(log, fst_bin, fs, bytes, a);
    }
}

/// The same commands on files written by the specification's encoder (format versions 1, 2, 3).
pub fn graph_files(log: &mut Log, files: &str, seed: u64, tier: &str, fst_bin: &str, work: &str) {
    let mut r = rng(seed, 29);
    let work = Path::new(work);
    let _ = std::fs::remove_dir_all(work);
    std::fs::create_dir_all(work).unwrap();
    let text = std::fs::read_to_string(files).unwrap_or_else(|e| {
        eprintln!("cannot read {}: {}", files, e);
        std::process::exit(2)
    });
    let stride = if tier == "thorough" { 2 } else { 9 };
    let off = (seed as usize) % stride;
    for (i, line) in text.lines().filter(|l| !l.trim().is_empty()).enumerate() {
        if i % stride != off {
            continue;
        }
        let v: Value = serde_json::from_str(line).unwrap_or_else(|e| {
            eprintln!("bad replay line: {}", e);
            std::process::exit(2)
        });
        let bytes: Vec<u8> = v["bytes"].as_array().unwrap().iter().map(|x| x.as_u64().unwrap() as u8).collect();
        if fst::raw::Fst::new(bytes.clone()).is_err() {
            continue;
        }
        let f = work.join("g.fst");
        std::fs::write(&f, &bytes).unwrap();
        all_evs(log, &mut r, fst_bin, &f, &bytes, i % 2 == 0, 2);
    }
    let _ = std::fs::remove_dir_all(work);
}

pub fn graph(log: &mut Log, seed: u64, tier: &str, fst_bin: &str, work: &str) {
    let thorough = tier == "thorough";
    let mut r = rng(seed, 23);
    let work = Path::new(work);
    let _ = std::fs::remove_dir_all(work);
    std::fs::create_dir_all(work).unwrap();
    let rounds = if thorough { 150 } else { 36 };
    for round in 0..rounds {
        let items = gen_items(&mut r, round % 6);
        let f = work.join("g.fst");
        let bytes = build_file(&f, &items);
        if bytes.len() > 6000 {
            continue;
        }
        all_evs(log, &mut r, fst_bin, &f, &bytes, round % 2 == 0, if thorough { 6 } else { 3 });
    }
    let _ = std::fs::remove_dir_all(work);
}
