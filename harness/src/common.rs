//! Shared plumbing: NDJSON event log, JSON conventions, seeded RNG, panic capture.
//!
//! JSON conventions (they are what TLC's Json module can read):
//!   byte strings            -> arrays of integers
//!   u64 values              -> canonical little-endian byte arrays ([] is 0)
//!   Option<T>               -> [] or [x]
//!   plain numbers           -> asserted < 2^31 here
//!   "ok"                    -> {"err":"none"} (records compare with records)

use rand::rngs::StdRng;
use rand::{Rng, SeedableRng};
use serde_json::{json, Value};
use std::fs::File;
use std::io::{BufWriter, Write};
use std::panic::{catch_unwind, AssertUnwindSafe};

pub type Kv = (Vec<u8>, u64);

pub struct Log {
    out: BufWriter<File>,
    pub n: usize,
    pub path: String,
    pub counts: std::collections::BTreeMap<String, usize>,
}

impl Log {
    pub fn create(path: &str) -> Log {
        let f = File::create(path).unwrap_or_else(|e| {
            eprintln!("cannot create {}: {}", path, e);
            std::process::exit(2)
        });
        Log {
            out: BufWriter::with_capacity(1 << 20, f),
            n: 0,
            path: path.to_string(),
            counts: Default::default(),
        }
    }
    pub fn ev(&mut self, v: Value) {
        if let Some(name) = v.get("ev").and_then(|x| x.as_str()) {
            *self.counts.entry(name.to_string()).or_insert(0) += 1;
        }
        serde_json::to_writer(&mut self.out, &v).unwrap();
        self.out.write_all(b"\n").unwrap();
        self.n += 1;
    }
    pub fn finish(mut self) -> (usize, std::collections::BTreeMap<String, usize>) {
        self.out.flush().unwrap();
        (self.n, self.counts)
    }
}

pub fn jb(b: &[u8]) -> Value {
    Value::Array(b.iter().map(|&x| json!(x)).collect())
}

pub fn ju(v: u64) -> Value {
    let mut b = v.to_le_bytes().to_vec();
    while b.last() == Some(&0) {
        b.pop();
    }
    jb(&b)
}

pub fn jn(n: usize) -> Value {
    assert!(n < (1usize << 31), "number too large for TLC: {}", n);
    json!(n)
}

pub fn jkv(it: &Kv) -> Value {
    json!([jb(&it.0), ju(it.1)])
}

pub fn jitems(items: &[Kv]) -> Value {
    Value::Array(items.iter().map(jkv).collect())
}

pub fn jok() -> Value {
    json!({"err": "none"})
}

pub fn jpanic() -> Value {
    json!({"err": "panic"})
}

/// Map a library error to its JSON form.
pub fn jerr(e: &fst::Error) -> Value {
    match e {
        fst::Error::Fst(e) => jraw_err(e),
        fst::Error::Io(e) => json!({"err": "Io", "kind": format!("{:?}", e.kind())}),
    }
}

pub fn jraw_err(e: &fst::raw::Error) -> Value {
    use fst::raw::Error as E;
    match e {
        E::Version { expected, got } => {
            json!({"err": "Version", "expected": ju(*expected), "got": ju(*got)})
        }
        E::Format { size } => json!({"err": "Format", "size": jn(*size)}),
        E::ChecksumMismatch { expected, got } => {
            json!({"err": "ChecksumMismatch", "expected": ju(*expected as u64), "got": ju(*got as u64)})
        }
        E::ChecksumMissing => json!({"err": "ChecksumMissing"}),
        E::DuplicateKey { got } => json!({"err": "DuplicateKey", "got": jb(got)}),
        E::OutOfOrder { previous, got } => {
            json!({"err": "OutOfOrder", "previous": jb(previous), "got": jb(got)})
        }
        E::FromUtf8(_) => json!({"err": "FromUtf8"}),
        _ => json!({"err": "Other"}),
    }
}

pub fn jres<T>(r: &Result<T, fst::Error>) -> Value {
    match r {
        Ok(_) => jok(),
        Err(e) => jerr(e),
    }
}

/// Run `f`, turning a panic of the code under test into data.
pub fn guard<T>(f: impl FnOnce() -> T) -> Result<T, String> {
    catch_unwind(AssertUnwindSafe(f)).map_err(|e| {
        if let Some(s) = e.downcast_ref::<&str>() {
            s.to_string()
        } else if let Some(s) = e.downcast_ref::<String>() {
            s.clone()
        } else {
            "panic".to_string()
        }
    })
}

pub fn quiet_panics() {
    if std::env::var("FSTV_LOUD").is_ok() {
        return;
    }
    std::panic::set_hook(Box::new(|_| {}));
}

pub fn rng(seed: u64, stream: u64) -> StdRng {
    StdRng::seed_from_u64(seed.wrapping_mul(0x9E37_79B9_7F4A_7C15).wrapping_add(stream))
}

pub fn pick<'a, T>(r: &mut StdRng, xs: &'a [T]) -> &'a T {
    &xs[r.gen_range(0, xs.len())]
}

/// Command line: `--name value` pairs after the positional arguments.
pub struct Args {
    pub pos: Vec<String>,
    pub opts: std::collections::BTreeMap<String, String>,
}

impl Args {
    pub fn parse(argv: &[String]) -> Args {
        let mut pos = vec![];
        let mut opts = std::collections::BTreeMap::new();
        let mut i = 0;
        while i < argv.len() {
            if let Some(name) = argv[i].strip_prefix("--") {
                let val = argv.get(i + 1).cloned().unwrap_or_default();
                opts.insert(name.to_string(), val);
                i += 2;
            } else {
                pos.push(argv[i].clone());
                i += 1;
            }
        }
        Args { pos, opts }
    }
    pub fn get(&self, k: &str, d: &str) -> String {
        self.opts.get(k).cloned().unwrap_or_else(|| d.to_string())
    }
    pub fn num(&self, k: &str, d: u64) -> u64 {
        self.opts.get(k).map(|s| s.parse().unwrap()).unwrap_or(d)
    }
}

pub fn data_path(name: &str) -> String {
    let root = std::env::var("FST_REPO").unwrap_or_else(|_| "/repo".to_string());
    format!("{}/data/{}", root, name)
}

pub fn read_lines(name: &str) -> Vec<Vec<u8>> {
    let s = std::fs::read(data_path(name)).unwrap_or_default();
    let mut v: Vec<Vec<u8>> = s
        .split(|&b| b == b'\n')
        .filter(|l| !l.is_empty())
        .map(|l| l.to_vec())
        .collect();
    v.sort();
    v.dedup();
    v
}

/// Run a child process to completion, or kill it after `secs` seconds: (output, timed out).
/// (A command line tool that never returns is an outcome to record, not a reason to hang.)
pub fn output_within(cmd: &mut std::process::Command, secs: u64) -> (std::process::Output, bool) {
    use std::io::Read;
    use std::process::Stdio;
    let mut child = cmd.stdin(Stdio::null()).stdout(Stdio::piped()).stderr(Stdio::piped()).spawn().expect("spawn");
    // drain the pipes on threads so that a chatty child cannot block on a full pipe
    let mut so = child.stdout.take().unwrap();
    let mut se = child.stderr.take().unwrap();
    let ho = std::thread::spawn(move || { let mut v = vec![]; let _ = so.read_to_end(&mut v); v });
    let he = std::thread::spawn(move || { let mut v = vec![]; let _ = se.read_to_end(&mut v); v });
    let t0 = std::time::Instant::now();
    let mut timed_out = false;
    let status = loop {
        match child.try_wait().expect("wait") {
            Some(st) => break st,
            None => {
                if t0.elapsed().as_secs() >= secs {
                    timed_out = true;
                    let _ = child.kill();
                    break child.wait().expect("wait");
                }
                std::thread::sleep(std::time::Duration::from_millis(2));
            }
        }
    };
    let stdout = ho.join().unwrap_or_default();
    let stderr = he.join().unwrap_or_default();
    (std::process::Output { status, stdout, stderr }, timed_out)
}
