//! Node cache and determinism scenarios (C12, C15), through the compile tap (hook H2).

use crate::api::*;
use crate::common::*;
use crate::gen::*;
use crate::scen_api::inputs;
use fst::raw::verif::{self, CompileEvent};
use fst::raw::Builder;
use rand::Rng;
use serde_json::{json, Value};
use std::collections::HashMap;

fn thorough(tier: &str) -> bool {
    tier == "thorough"
}

// ---- transcribed oracle (DESIGN 4.5): MinimalNodes / trie size of a key set.  It is validated
// against the TLA+ operator on every run through RL events.
pub struct TrieNode {
    fin: bool,
    kids: Vec<(u8, usize)>,
}

pub fn trie_of(keys: &[Vec<u8>]) -> Vec<TrieNode> {
    let mut t = vec![TrieNode { fin: false, kids: vec![] }];
    for k in keys {
        let mut cur = 0usize;
        for &b in k {
            let next = match t[cur].kids.iter().find(|(x, _)| *x == b) {
                Some(&(_, n)) => n,
                None => {
                    t.push(TrieNode { fin: false, kids: vec![] });
                    let n = t.len() - 1;
                    t[cur].kids.push((b, n));
                    n
                }
            };
            cur = next;
        }
        t[cur].fin = true;
    }
    t
}

/// (number of distinct right languages except {""}, number of prefixes incl. the empty one)
pub fn minimal_and_trie(keys: &[Vec<u8>]) -> (usize, usize) {
    let t = trie_of(keys);
    // children have larger indices than parents: process in reverse
    let mut class: Vec<usize> = vec![0; t.len()];
    let mut sigs: HashMap<(bool, Vec<(u8, usize)>), usize> = HashMap::new();
    for i in (0..t.len()).rev() {
        let mut kids: Vec<(u8, usize)> = t[i].kids.iter().map(|&(b, n)| (b, class[n])).collect();
        kids.sort();
        let sig = (t[i].fin, kids);
        let next = sigs.len();
        class[i] = *sigs.entry(sig).or_insert(next);
    }
    let has_empty_final = sigs.contains_key(&(true, vec![]));
    (sigs.len() - if has_empty_final { 1 } else { 0 }, t.len())
}

fn jnode(e: &CompileEvent) -> Value {
    json!({"final": e.node.is_final, "fout": ju(e.node.final_output),
           "trans": e.node.trans.iter().map(|&(i, o, a)| json!([i, ju(o), jn(a)])).collect::<Vec<_>>()})
}

/// One tapped build; logs TNew, every Compile event and TDone.
pub fn tapped_build(log: &mut Log, items: &[Kv], set: bool, geo: Option<(usize, usize)>, log_events: bool) -> (Vec<u8>, usize, u64) {
    let cells = match geo {
        Some((r, c)) => r * c,
        None => 20000,
    };
    verif::set_geometry(geo);
    verif::start_tap();
    let mut b = Builder::memory();
    // the capacity actually in use (a changed default geometry must not look like a violation)
    let cells = { let (r, c) = verif::last_geometry(); let _ = cells; r * c };
    for (k, v) in items {
        if set {
            b.add(k).unwrap();
        } else {
            b.insert(k, *v).unwrap();
        }
    }
    let bytes = b.into_inner().unwrap();
    let evictions = verif::evictions();
    let evs = verif::stop_tap();
    verif::set_geometry(None);
    let nodes = evs.iter().filter(|e| e.kind == 2).count();
    if log_events {
        log.ev(json!({"ev": "TNew", "cells": jn(std::cmp::min(cells, 1 << 30)), "set": set, "geo": format!("{:?}", geo)}));
        for e in &evs {
            log.ev(json!({"ev": "Compile", "node": jnode(e), "kind": e.kind, "addr": jn(e.addr), "start": jn(e.start), "evicted": e.evicted}));
        }
        let small = items.len() <= 120;
        let model: Vec<Kv> = if small { items.to_vec() } else { vec![] };
        log.ev(json!({"ev": "TDone", "evictions": jn(evictions as usize), "nodes": nodes, "set": set, "small": small, "items": jitems(&model)}));
    }
    (bytes, nodes, evictions)
}

/// The same, with the items reaching one builder in segments: single calls, `extend_iter` batches
/// (from a vector: the size hint is exact) and `extend_stream` batches, in random order and sizes.
pub fn tapped_build_mixed(log: &mut Log, items: &[Kv], set: bool, geo: Option<(usize, usize)>, r: &mut rand::rngs::StdRng) {
    use crate::api::VecStream;
    verif::set_geometry(geo);
    verif::start_tap();
    let mut b = Builder::memory();
    let cells = { let (r, c) = verif::last_geometry(); r * c };
    let items: Vec<Kv> = items.iter().map(|(k, v)| (k.clone(), if set { 0 } else { *v })).collect();
    let mut i = 0;
    let mut plan = vec![];
    while i < items.len() {
        let n = 1 + r.gen_range(0, std::cmp::max(1, items.len() * 2 / 3));
        let seg = &items[i..std::cmp::min(items.len(), i + n)];
        let how = r.gen_range(0, 3);
        plan.push(format!("{}x{}", how, seg.len()));
        match how {
            0 => {
                for (k, v) in seg {
                    if set {
                        b.add(k).unwrap();
                    } else {
                        b.insert(k, *v).unwrap();
                    }
                }
            }
            1 => b.extend_iter(seg.to_vec().into_iter().map(|(k, v)| (k, fst::raw::Output::new(v)))).unwrap(),
            _ => b.extend_stream(VecStream { items: seg.to_vec(), i: 0 }).unwrap(),
        }
        i += n;
    }
    b.into_inner().unwrap();
    let evictions = verif::evictions();
    let evs = verif::stop_tap();
    verif::set_geometry(None);
    let nodes = evs.iter().filter(|e| e.kind == 2).count();
    log.ev(json!({"ev": "TNew", "cells": jn(std::cmp::min(cells, 1 << 30)), "set": set, "geo": format!("{:?}", geo), "plan": plan.join(" ")}));
    for e in &evs {
        log.ev(json!({"ev": "Compile", "node": jnode(e), "kind": e.kind, "addr": jn(e.addr), "start": jn(e.start), "evicted": e.evicted}));
    }
    let small = items.len() <= 120;
    let model: Vec<Kv> = if small { items.to_vec() } else { vec![] };
    // (a raw builder fed zeros through insert is a set of keys all the same)
    log.ev(json!({"ev": "TDone", "evictions": jn(evictions as usize), "nodes": nodes, "set": set, "small": small, "items": jitems(&model)}));
}

pub fn c12(log: &mut Log, seed: u64, tier: &str) {
    let mut r = rng(seed, 12);
    // (1) validation of the transcribed oracle against the specification
    let nrl = if thorough(tier) { 400 } else { 120 };
    for _ in 0..nrl {
        let n = *pick(&mut r, &[0usize, 1, 2, 4, 8, 16, 40]);
        let alpha = *pick(&mut r, &[1usize, 2, 3]);
        let ml = *pick(&mut r, &[1usize, 2, 3, 5]);
        let keys = if r.gen_range(0, 3) == 0 { affix_keys(&mut r, 3, 3) } else { random_keys(&mut r, n, alpha, ml) };
        let (m, t) = minimal_and_trie(&keys);
        log.ev(json!({"ev": "RL", "keys": keys.iter().map(|k| jb(k)).collect::<Vec<_>>(), "minimal": m, "trie": t}));
    }
    // (2) lock step on compile events
    let geos: &[Option<(usize, usize)>] = &[None, Some((0, 0)), Some((1, 1)), Some((1, 2)), Some((1, 3)), Some((2, 2)), Some((3, 1)), Some((64, 2)), Some((4096, 4))];
    let ins = inputs(&mut r, tier, false);
    for (_name, keys) in ins {
        if keys.len() > 1300 {
            continue;
        }
        let zero: Vec<Kv> = keys.iter().map(|k| (k.clone(), 0u64)).collect();
        let geo = *pick(&mut r, geos);
        tapped_build(log, &zero, true, geo, true);
        // always also with a cache that suffices: minimality must be reached
        tapped_build(log, &zero, true, Some((4096, 4)), true);
        let items = assign(keys.clone(), *pick(&mut r, VAL_MODES), &mut r);
        tapped_build(log, &items, false, *pick(&mut r, geos), true);
        // ... and with the keys arriving in segments through the three ways of filling one builder
        let mixed_geos: &[Option<(usize, usize)>] = &[None, Some((4096, 4)), Some((256, 2)), Some((64, 2)), Some((1024, 1))];
        tapped_build_mixed(log, &zero, true, *pick(&mut r, mixed_geos), &mut r);
        tapped_build_mixed(log, &items, false, *pick(&mut r, mixed_geos), &mut r);
    }
    // every subset of the two-level universe as a set with a sufficient cache and with tiny ones
    let stems: &[u8] = b"123";
    let mut uni: Vec<Vec<u8>> = vec![];
    for &st in stems {
        for &en in b"ab" {
            uni.push(vec![st, en]);
        }
    }
    uni.push(b"1".to_vec());
    uni.push(vec![]);
    uni.sort();
    for mask in 0u32..(1u32 << uni.len()) {
        let keys: Vec<Kv> = (0..uni.len()).filter(|i| mask & (1 << i) != 0).map(|i| (uni[i].clone(), 0u64)).collect();
        tapped_build(log, &keys, true, geos[(mask as usize) % geos.len()], true);
    }
    // ... and as maps whose values repeat below every stem, so that the same node - with outputs of
    // every width from one to eight bytes - recurs: it is emitted once unless the cache evicted
    for mask in (0u32..(1u32 << uni.len())).step_by(if thorough(tier) { 1 } else { 3 }) {
        for &sh in &[0u32, 7, 15, 23, 31, 32, 39, 47, 55, 63] {
            if !thorough(tier) && (mask + sh) % 4 != 0 {
                continue;
            }
            let items: Vec<Kv> = (0..uni.len())
                .filter(|i| mask & (1 << i) != 0)
                .map(|i| {
                    let k = uni[i].clone();
                    let v = match k.last() {
                        Some(b'b') => 7u64 + (1u64 << sh),
                        Some(b'a') => 7,
                        _ => 3,
                    };
                    (k, v)
                })
                .collect();
            tapped_build(log, &items, false, if sh % 2 == 0 { None } else { Some((4096, 4)) }, true);
        }
    }
    // (3) corpora: minimality at scale and the sharing ratio with the default geometry
    let mut corpora = vec!["words-10000", "wiki-urls-10000"];
    if thorough(tier) {
        corpora.push("words-100000");
    }
    for name in corpora {
        let keys = read_lines(name);
        if keys.is_empty() {
            continue;
        }
        let zero: Vec<Kv> = keys.iter().map(|k| (k.clone(), 0u64)).collect();
        let (minimal, trie) = minimal_and_trie(&keys);
        let (_, nodes, evictions) = tapped_build(log, &zero, true, None, false);
        let rows = (trie * 4).next_power_of_two();
        let (_, ne_nodes, ne_evictions) = tapped_build(log, &zero, true, Some((rows, 8)), false);
        log.ev(json!({"ev": "Corpus", "name": name, "keys": keys.len(), "trie": trie, "minimal": minimal, "nodes": nodes, "evictions": jn(evictions as usize),
                      "noevict_nodes": ne_nodes, "noevict_evictions": jn(ne_evictions as usize), "threshold": 50}));
    }
}

fn fnv(bytes: &[u8]) -> String {
    let mut h: u64 = 14695981039346656037;
    for &b in bytes {
        h = (h ^ b as u64).wrapping_mul(1099511628211);
    }
    format!("{:016x}-{}", h, bytes.len())
}

/// Build `items` through one construction path; returns the bytes.
pub fn build_via(path: &str, items: &[Kv], set: bool) -> Vec<u8> {
    let keys: Vec<Vec<u8>> = items.iter().map(|it| it.0.clone()).collect();
    // streamed into a sink that accepts a few bytes per write / random prefixes with interrupts
    if let Some(rest) = path.strip_prefix("sink:") {
        use crate::scen_sink::{build_through, Policy};
        let policy = match rest {
            "random" => Policy::Random { short: 50, intr: 15 },
            cap => Policy::Cap(cap.parse().unwrap()),
        };
        return build_through(items, set, policy, 7).unwrap_or_else(|e| format!("build failed: {}", e).into_bytes());
    }
    // several entry points on one builder: "<first>+<second>@<cut>", each of ins / iter / stream
    if let Some(at) = path.find('@') {
        let cut: usize = path[at + 1..].parse().unwrap();
        let cut = std::cmp::min(cut, items.len());
        let (first, second) = {
            let mut it = path[..at].split('+');
            (it.next().unwrap(), it.next().unwrap())
        };
        if set {
            let mut b = fst::SetBuilder::memory();
            for (how, part) in [(first, &keys[..cut]), (second, &keys[cut..])].iter() {
                match *how {
                    "ins" => part.iter().for_each(|k| b.insert(k).unwrap()),
                    "iter" => b.extend_iter(part.iter().cloned()).unwrap(),
                    _ => b.extend_stream(VecStreamSet { items: part.iter().map(|k| (k.clone(), 0)).collect(), i: 0 }).unwrap(),
                }
            }
            return b.into_inner().unwrap();
        }
        let mut b = fst::MapBuilder::memory();
        for (how, part) in [(first, &items[..cut]), (second, &items[cut..])].iter() {
            match *how {
                "ins" => part.iter().for_each(|(k, v)| b.insert(k, *v).unwrap()),
                "iter" => b.extend_iter(part.iter().map(|(k, v)| (k.clone(), *v))).unwrap(),
                _ => b.extend_stream(VecStreamMap { items: part.to_vec(), i: 0 }).unwrap(),
            }
        }
        return b.into_inner().unwrap();
    }
    match (path, set) {
        ("raw_insert", false) => {
            let mut b = Builder::memory();
            for (k, v) in items {
                b.insert(k, *v).unwrap();
            }
            b.into_inner().unwrap()
        }
        ("raw_add", true) => {
            let mut b = Builder::memory();
            for k in &keys {
                b.add(k).unwrap();
            }
            b.into_inner().unwrap()
        }
        ("raw_insert_zero", true) => {
            let mut b = Builder::memory();
            for k in &keys {
                b.insert(k, 0).unwrap();
            }
            b.into_inner().unwrap()
        }
        ("insert_with_rejects", _) => {
            // the accepted sequence with rejected calls in between (their errors are ignored):
            // a rejected call must leave no trace in the bytes either
            let mut b = Builder::memory();
            for (i, (k, v)) in items.iter().enumerate() {
                if set {
                    b.add(k).unwrap();
                } else {
                    b.insert(k, *v).unwrap();
                }
                if i % 2 == 0 && !set {
                    let _ = b.insert(k, v / 2); // duplicate with a smaller value
                    let _ = b.insert(k, v.wrapping_add(5)); // duplicate with another value
                }
                if i > 0 && i % 3 == 0 {
                    let prev = &items[i - 1].0;
                    let _ = if set { b.add(prev) } else { b.insert(prev, 1) }; // out of order
                    if i > 1 {
                        // a much smaller key is rejected, and what lies between it and the last
                        // accepted key is still rejected afterwards
                        let first = &items[0].0;
                        let _ = if set { b.add(first) } else { b.insert(first, 1) };
                        let _ = if set { b.add(prev) } else { b.insert(prev, 1) };
                        let _ = if set { b.add(&items[i / 2].0) } else { b.insert(&items[i / 2].0, 2) };
                    }
                }
                if !k.is_empty() && i % 4 == 1 {
                    let _ = if set { b.add(&k[..k.len() - 1]) } else { b.insert(&k[..k.len() - 1], 0) }; // a prefix: smaller
                }
            }
            b.into_inner().unwrap()
        }
        ("front_insert", false) => {
            let mut b = fst::MapBuilder::memory();
            for (k, v) in items {
                b.insert(k, *v).unwrap();
            }
            b.into_inner().unwrap()
        }
        ("front_insert", true) => {
            let mut b = fst::SetBuilder::memory();
            for k in &keys {
                b.insert(k).unwrap();
            }
            b.into_inner().unwrap()
        }
        ("extend_iter", false) => {
            let mut b = fst::MapBuilder::memory();
            b.extend_iter(items.iter().map(|(k, v)| (k.clone(), *v))).unwrap();
            b.into_inner().unwrap()
        }
        ("extend_iter", true) => {
            let mut b = fst::SetBuilder::memory();
            b.extend_iter(keys.iter().cloned()).unwrap();
            b.into_inner().unwrap()
        }
        ("raw_extend_iter", false) => {
            let mut b = Builder::memory();
            b.extend_iter(items.iter().map(|(k, v)| (k.clone(), fst::raw::Output::new(*v)))).unwrap();
            b.into_inner().unwrap()
        }
        ("extend_stream_vec", false) => {
            let mut b = fst::MapBuilder::memory();
            b.extend_stream(VecStreamMap { items: items.to_vec(), i: 0 }).unwrap();
            b.into_inner().unwrap()
        }
        ("extend_stream_vec", true) => {
            let mut b = fst::SetBuilder::memory();
            b.extend_stream(VecStreamSet { items: items.to_vec(), i: 0 }).unwrap();
            b.into_inner().unwrap()
        }
        ("raw_extend_stream", false) => {
            let mut b = Builder::memory();
            b.extend_stream(VecStream { items: items.to_vec(), i: 0 }).unwrap();
            b.into_inner().unwrap()
        }
        ("extend_stream_fst", false) => {
            // stream another FST (built with a different cache geometry) into a builder
            verif::set_geometry(Some((3, 1)));
            let src = fst::Map::from_iter(items.iter().map(|(k, v)| (k.clone(), *v))).unwrap();
            verif::set_geometry(None);
            let mut b = fst::MapBuilder::memory();
            b.extend_stream(src.stream()).unwrap();
            b.into_inner().unwrap()
        }
        ("extend_stream_fst", true) => {
            let src = fst::Set::from_iter(keys.iter().cloned()).unwrap();
            let mut b = fst::SetBuilder::memory();
            b.extend_stream(src.stream()).unwrap();
            b.into_inner().unwrap()
        }
        ("extend_stream_union", true) => {
            // stream the union of two overlapping parts
            let a = fst::Set::from_iter(keys.iter().enumerate().filter(|(i, _)| i % 3 != 0).map(|(_, k)| k.clone())).unwrap();
            let c = fst::Set::from_iter(keys.iter().enumerate().filter(|(i, _)| i % 3 != 1).map(|(_, k)| k.clone())).unwrap();
            let mut b = fst::SetBuilder::memory();
            b.extend_stream(a.op().add(&c).union()).unwrap();
            b.into_inner().unwrap()
        }
        // a set builder takes a repeat of the key it accepted last as a no-op: feeding keys more than
        // once must not show in the bytes (same input name, hence the same digest is required)
        ("insert_repeats", true) | ("raw_add_repeats", true) | ("extend_iter_repeats", true) | ("extend_stream_repeats", true) | ("insert_repeats_some", true) => {
            let mut fed: Vec<Vec<u8>> = vec![];
            for (i, k) in keys.iter().enumerate() {
                let times = if path == "insert_repeats_some" { 1 + (i % 3) } else { 2 };
                for _ in 0..times {
                    fed.push(k.clone());
                }
            }
            match path {
                "raw_add_repeats" => {
                    let mut b = Builder::memory();
                    for k in &fed {
                        b.add(k).unwrap();
                    }
                    b.into_inner().unwrap()
                }
                "extend_iter_repeats" => {
                    let mut b = fst::SetBuilder::memory();
                    b.extend_iter(fed.iter().cloned()).unwrap();
                    b.into_inner().unwrap()
                }
                "extend_stream_repeats" => {
                    let mut b = fst::SetBuilder::memory();
                    b.extend_stream(VecStreamSet { items: fed.iter().map(|k| (k.clone(), 0u64)).collect(), i: 0 }).unwrap();
                    b.into_inner().unwrap()
                }
                _ => {
                    let mut b = fst::SetBuilder::memory();
                    for k in &fed {
                        b.insert(k).unwrap();
                    }
                    b.into_inner().unwrap()
                }
            }
        }
        ("from_iter", false) => fst::Map::from_iter(items.iter().map(|(k, v)| (k.clone(), *v))).unwrap().as_fst().as_bytes().to_vec(),
        ("from_iter", true) => fst::Set::from_iter(keys.iter().cloned()).unwrap().as_fst().as_bytes().to_vec(),
        ("raw_from_iter", false) => fst::raw::Fst::from_iter_map(items.iter().map(|(k, v)| (k.clone(), *v))).unwrap().as_bytes().to_vec(),
        ("raw_from_iter", true) => fst::raw::Fst::from_iter_set(keys.iter().cloned()).unwrap().as_bytes().to_vec(),
        _ => panic!("unknown path {} set={}", path, set),
    }
}

pub const MAP_PATHS: &[&str] = &["raw_insert", "insert_with_rejects", "front_insert", "extend_iter", "raw_extend_iter", "extend_stream_vec", "raw_extend_stream", "extend_stream_fst", "from_iter", "raw_from_iter"];
pub const SET_PATHS: &[&str] = &["raw_add", "insert_with_rejects", "raw_insert_zero", "front_insert", "extend_iter", "extend_stream_vec", "extend_stream_fst", "extend_stream_union", "from_iter", "raw_from_iter", "insert_repeats", "raw_add_repeats", "extend_iter_repeats", "extend_stream_repeats", "insert_repeats_some"];

/// The named inputs of C15, reproducible from (name, seed) in a child process.
pub fn c15_inputs(seed: u64, tier: &str) -> Vec<(String, Vec<Kv>, bool)> {
    let mut r = rng(seed, 15);
    let mut out = vec![];
    let ins = inputs(&mut r, tier, true);
    for (i, (name, keys)) in ins.into_iter().enumerate() {
        if keys.len() > 20000 && !thorough(tier) {
            continue;
        }
        let set = i % 3 == 0;
        let mode = if set { ValMode::Zero } else if keys.len() > 2000 { ValMode::Index } else { *pick(&mut r, VAL_MODES) };
        let items = assign(keys, mode, &mut r);
        out.push((format!("{}#{}#{:?}#{}", i, name, mode, if set { "set" } else { "map" }), items, set));
    }
    // keys that end in the whole of the key before them: every tail node of the later key is a
    // cache hit, so its first node refers to the node written last
    let chains: Vec<Vec<&str>> = vec![
        vec!["ear", "fear", "gear", "hear", "near", "tear"],
        vec!["a", "ba", "cba", "dcba", "edcba"],
        vec!["ing", "king", "liking", "making", "ring", "string", "zing"],
        vec!["0x", "10x", "110x", "2", "20x", "3", "30x", "330x"],
        vec!["ad", "bcd"],
        vec!["ax", "bax", "cbax", "cbay"],
        vec!["d", "ed", "fed", "fee", "gfed"],
    ];
    for (j, c) in chains.into_iter().enumerate() {
        let keys: Vec<Vec<u8>> = c.iter().map(|k| k.as_bytes().to_vec()).collect();
        for (mode, set) in [(ValMode::Zero, true), (ValMode::Zero, false), (ValMode::Index, false)].iter() {
            let items = assign(keys.clone(), *mode, &mut r);
            out.push((format!("chain{}#{:?}#{}", j, mode, if *set { "set" } else { "map" }), items, *set));
        }
    }
    out
}

pub fn c15(log: &mut Log, seed: u64, tier: &str) {
    let ins = c15_inputs(seed, tier);
    let exe = std::env::current_exe().unwrap();
    for (idx, (name, items, set)) in ins.iter().enumerate() {
        let paths: &[&str] = if *set { SET_PATHS } else { MAP_PATHS };
        let big = items.len() > 2000;
        for (pi, path) in paths.iter().enumerate() {
            if big && pi % 3 != idx % 3 {
                continue;
            }
            for rep in 0..(if big { 1 } else { 2 }) {
                let bytes = build_via(path, items, *set);
                log.ev(json!({"ev": "Built", "input": name, "path": path, "thread": 0, "pid": 0, "rep": rep, "digest": fnv(&bytes)}));
            }
        }
        // several entry points on the same builder, switching at every position of small inputs
        if items.len() <= 48 || idx % 6 == 1 {
            let n = items.len();
            let cuts: Vec<usize> = if n <= 48 { (0..=n).collect() } else { (0..8).map(|j| (j * 131 + idx) % (n + 1)).collect() };
            let combos = ["ins+stream", "ins+iter", "stream+ins", "iter+stream", "stream+stream", "iter+ins"];
            for (ci, &cut) in cuts.iter().enumerate() {
                let some: Vec<&str> = if n <= 16 { combos.to_vec() } else { vec![combos[0], combos[1 + (ci + idx) % 5]] };
                for combo in some {
                    let path = format!("{}@{}", combo, cut);
                    let bytes = build_via(&path, items, *set);
                    log.ev(json!({"ev": "Built", "input": name, "path": path, "thread": 0, "pid": 0, "rep": 0, "digest": fnv(&bytes)}));
                }
            }
        }
        // nor on how the sink takes the bytes
        {
            // (large inputs too: the in-memory and the sink-backed constructors must agree once the
            // node cache is under pressure)
            let sink_paths: &[&str] = if big { &["sink:4096"] } else { &["sink:3", "sink:64", "sink:random"] };
            for path in sink_paths.iter() {
                let bytes = build_via(path, items, *set);
                log.ev(json!({"ev": "Built", "input": name, "path": path, "thread": 0, "pid": 0, "rep": 0, "digest": fnv(&bytes)}));
            }
        }
        // what else lives (or died) in the process must not matter: six builders fed in lock step
        // and finished one after the other, then a build after six builders were abandoned
        // unfinished (two of them after a rejected call)
        if !big && idx % 5 == 2 {
            if *set {
                let mut bs: Vec<fst::SetBuilder<Vec<u8>>> = (0..6).map(|_| fst::SetBuilder::memory()).collect();
                for (k, _) in items.iter() {
                    for b in bs.iter_mut() {
                        b.insert(k).unwrap();
                    }
                }
                for (j, b) in bs.into_iter().enumerate() {
                    let bytes = b.into_inner().unwrap();
                    log.ev(json!({"ev": "Built", "input": name, "path": format!("lockstep#{}", j), "thread": 0, "pid": 0, "rep": 0, "digest": fnv(&bytes)}));
                }
            } else {
                let mut bs: Vec<fst::MapBuilder<Vec<u8>>> = (0..6).map(|_| fst::MapBuilder::memory()).collect();
                for (k, v) in items.iter() {
                    for b in bs.iter_mut() {
                        b.insert(k, *v).unwrap();
                    }
                }
                for (j, b) in bs.into_iter().enumerate() {
                    let bytes = b.into_inner().unwrap();
                    log.ev(json!({"ev": "Built", "input": name, "path": format!("lockstep#{}", j), "thread": 0, "pid": 0, "rep": 0, "digest": fnv(&bytes)}));
                }
            }
            for j in 0..6 {
                let mut b = Builder::memory();
                for (k, v) in items.iter().take(1 + j) {
                    b.insert(k, *v).unwrap();
                }
                if j % 3 == 0 {
                    let _ = b.insert(b"", 1); // rejected (or the first key of an empty build): the builder is dropped anyway
                }
                drop(b);
            }
            let bytes = build_via(paths[0], items, *set);
            log.ev(json!({"ev": "Built", "input": name, "path": "after_abandoned_builders", "thread": 0, "pid": 0, "rep": 0, "digest": fnv(&bytes)}));
            // ... nor builds that failed before on this thread: a wide set whose sink fails at every
            // write index in turn, then two wide sets over other bytes
            {
                use crate::scen_sink::{build_through, Policy};
                let wide = |from: u8, n: u8| -> Vec<Kv> { (0..n).map(|x| (vec![from + x, b't'], 0u64)).collect() };
                let probe_a = wide(100, 40);
                let probe_b = wide(3, 35);
                let before_a = fnv(&build_via("raw_add", &probe_a, true));
                let before_b = fnv(&build_via("raw_add", &probe_b, true));
                let failing = wide(0, 60);
                log.ev(json!({"ev": "Built", "input": format!("wide-probe-a@{}", idx), "path": "before_failed_builds", "thread": 0, "pid": 0, "rep": 0, "digest": before_a}));
                log.ev(json!({"ev": "Built", "input": format!("wide-probe-b@{}", idx), "path": "before_failed_builds", "thread": 0, "pid": 0, "rep": 0, "digest": before_b}));
                // (the probes are rebuilt right after every failed build: a later successful build
                // over the same bytes could put things right again)
                for k in 0..200usize {
                    let _ = build_through(&failing, true, Policy::FaultAt { index: k, kind: (k % 4) as u8 }, 1);
                    let (name_p, probe) = if k % 2 == 0 { ("wide-probe-a", &probe_a) } else { ("wide-probe-b", &probe_b) };
                    log.ev(json!({"ev": "Built", "input": format!("{}@{}", name_p, idx), "path": format!("after_failed_build_{}", k), "thread": 0, "pid": 0, "rep": 0,
                                  "digest": fnv(&build_via("raw_add", probe, true))}));
                    if k % 2 == 1 {
                        // ... and with the other probe after the same failure point
                        let _ = build_through(&failing, true, Policy::FaultAt { index: k - 1, kind: 0 }, 1);
                        log.ev(json!({"ev": "Built", "input": format!("wide-probe-b@{}", idx), "path": format!("after_failed_build_{}b", k - 1), "thread": 0, "pid": 0, "rep": 0,
                                      "digest": fnv(&build_via("raw_add", &probe_b, true))}));
                    }
                }
            }
        }
        // parallel threads
        if idx % 4 == 0 || big {
            let mut hs = vec![];
            for t in 0..8 {
                let items = items.clone();
                let set = *set;
                let path = paths[t % paths.len()].to_string();
                hs.push(std::thread::spawn(move || (path.clone(), fnv(&build_via(&path, &items, set)))));
            }
            for (t, h) in hs.into_iter().enumerate() {
                let (path, d) = h.join().unwrap();
                log.ev(json!({"ev": "Built", "input": name, "path": path, "thread": t + 1, "pid": 0, "rep": 0, "digest": d}));
            }
        }
        // separate processes
        if idx % 8 == 0 || big {
            for p in 0..4 {
                let path = paths[(p * 2) % paths.len()];
                let out = std::process::Command::new(&exe)
                    .args(&["digest", &idx.to_string(), path, "--seed", &seed.to_string(), "--tier", tier])
                    .output()
                    .expect("spawn child");
                let d = String::from_utf8_lossy(&out.stdout).trim().to_string();
                log.ev(json!({"ev": "Built", "input": name, "path": path, "thread": 0, "pid": p + 1, "rep": 0, "digest": d}));
            }
        }
    }
}

pub fn digest_child(idx: usize, path: &str, seed: u64, tier: &str) {
    let ins = c15_inputs(seed, tier);
    let (_, items, set) = &ins[idx];
    println!("{}", fnv(&build_via(path, items, *set)));
}

pub fn _unused(_: &Sess) {}
