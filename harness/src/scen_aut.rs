//! C18: the shipped automata and combinators, composed as the real generic types and driven
//! over every string up to a length.  Judged by TLC (Trace_Aut.tla).

use crate::common::*;
use crate::taut::TableAut;
use fst::automaton::{AlwaysMatch, Str, Subsequence};
use fst::Automaton;
use rand::rngs::StdRng;
use rand::Rng;
use serde_json::{json, Value};

pub const ALPHA: &[u8] = &[b'a', b'b', b'c', 0];

/// A leaf: one of the real shipped automata or a table automaton.  All calls delegate to the
/// real implementations.
#[derive(Clone)]
pub enum Leaf {
    Tab(TableAut),
    Str(String),
    Sub(String),
    Always,
}

pub enum LeafState {
    Tab(usize),
    Str(Option<usize>),
    Sub(usize),
    Always,
}

impl Automaton for Leaf {
    type State = LeafState;
    fn start(&self) -> LeafState {
        match self {
            Leaf::Tab(t) => LeafState::Tab(t.start()),
            Leaf::Str(s) => LeafState::Str(Str::new(s).start()),
            Leaf::Sub(s) => LeafState::Sub(Subsequence::new(s).start()),
            Leaf::Always => {
                AlwaysMatch.start();
                LeafState::Always
            }
        }
    }
    fn is_match(&self, st: &LeafState) -> bool {
        match (self, st) {
            (Leaf::Tab(t), LeafState::Tab(s)) => t.is_match(s),
            (Leaf::Str(x), LeafState::Str(s)) => Str::new(x).is_match(s),
            (Leaf::Sub(x), LeafState::Sub(s)) => Subsequence::new(x).is_match(s),
            (Leaf::Always, LeafState::Always) => AlwaysMatch.is_match(&()),
            _ => unreachable!(),
        }
    }
    fn can_match(&self, st: &LeafState) -> bool {
        match (self, st) {
            (Leaf::Tab(t), LeafState::Tab(s)) => t.can_match(s),
            (Leaf::Str(x), LeafState::Str(s)) => Str::new(x).can_match(s),
            (Leaf::Sub(x), LeafState::Sub(s)) => Subsequence::new(x).can_match(s),
            (Leaf::Always, LeafState::Always) => AlwaysMatch.can_match(&()),
            _ => unreachable!(),
        }
    }
    fn will_always_match(&self, st: &LeafState) -> bool {
        match (self, st) {
            (Leaf::Tab(t), LeafState::Tab(s)) => t.will_always_match(s),
            (Leaf::Str(x), LeafState::Str(s)) => Str::new(x).will_always_match(s),
            (Leaf::Sub(x), LeafState::Sub(s)) => Subsequence::new(x).will_always_match(s),
            (Leaf::Always, LeafState::Always) => AlwaysMatch.will_always_match(&()),
            _ => unreachable!(),
        }
    }
    fn accept(&self, st: &LeafState, b: u8) -> LeafState {
        match (self, st) {
            (Leaf::Tab(t), LeafState::Tab(s)) => LeafState::Tab(t.accept(s, b)),
            (Leaf::Str(x), LeafState::Str(s)) => LeafState::Str(Str::new(x).accept(s, b)),
            (Leaf::Sub(x), LeafState::Sub(s)) => LeafState::Sub(Subsequence::new(x).accept(s, b)),
            (Leaf::Always, LeafState::Always) => {
                AlwaysMatch.accept(&(), b);
                LeafState::Always
            }
            _ => unreachable!(),
        }
    }
}

impl Leaf {
    fn json(&self) -> Value {
        match self {
            Leaf::Tab(t) => {
                // classes listed for the bytes of ALPHA except the representative of "other"
                let cls: Vec<Value> = ALPHA.iter().filter(|&&b| b != 0).map(|&b| json!([b, t.cls[b as usize]])).collect();
                let set = |v: &Vec<bool>| -> Value { Value::Array(v.iter().enumerate().filter(|(_, &x)| x).map(|(i, _)| json!(i + 1)).collect()) };
                json!(["T", {"start": t.start, "delta": t.delta, "cls": cls, "other": t.cls[0], "match": set(&t.matches), "can": set(&t.can), "always": set(&t.always)}])
            }
            Leaf::Str(s) => json!(["STR", jb(s.as_bytes())]),
            Leaf::Sub(s) => json!(["SUB", jb(s.as_bytes())]),
            Leaf::Always => json!(["ALW"]),
        }
    }
}

fn words(maxlen: usize) -> Vec<Vec<u8>> {
    words_over(ALPHA, maxlen)
}

fn words_over(alpha: &[u8], maxlen: usize) -> Vec<Vec<u8>> {
    let mut all: Vec<Vec<u8>> = vec![vec![]];
    let mut frontier: Vec<Vec<u8>> = vec![vec![]];
    for _ in 0..maxlen {
        let mut next = vec![];
        for w in &frontier {
            for &b in alpha {
                let mut x = w.clone();
                x.push(b);
                next.push(x);
            }
        }
        all.extend(next.iter().cloned());
        frontier = next;
    }
    all
}

fn drive<A: Automaton>(aut: &A, ws: &[Vec<u8>]) -> Value {
    let mut runs = vec![];
    for w in ws {
        let mut st = aut.start();
        for &b in w {
            st = aut.accept(&st, b);
        }
        runs.push(json!([jb(w), aut.is_match(&st), aut.can_match(&st), aut.will_always_match(&st)]));
    }
    Value::Array(runs)
}

/// A table leaf over classes {a}, {b}, {c}, other - with every hint randomly weakened (still sound).
fn random_table(r: &mut StdRng) -> TableAut {
    let n = r.gen_range(1, 4);
    let ncls = r.gen_range(2, 5);
    let mut cls = vec![1usize; 256];
    for (i, &b) in [b'a', b'b', b'c'].iter().enumerate() {
        cls[b as usize] = 1 + (i + 1) % ncls;
    }
    let delta: Vec<Vec<usize>> = (0..n).map(|_| (0..ncls).map(|_| r.gen_range(1, n + 1)).collect()).collect();
    let matches: Vec<bool> = (0..n).map(|_| r.gen_range(0, 2) == 0).collect();
    let mut t = TableAut { n, start: 1, cls, delta, matches, can: vec![true; n], always: vec![false; n], eof: vec![] };
    t.exact_hints();
    let p = *pick(r, &[0u32, 50, 100]);
    t.weaken_hints(r, p);
    t
}

fn random_leaf(r: &mut StdRng) -> Leaf {
    random_leaf_over(r, &['a', 'b', 'c'])
}

fn random_leaf_over(r: &mut StdRng, chars: &[char]) -> Leaf {
    match r.gen_range(0, 8) {
        0 | 1 | 2 => Leaf::Tab(random_table(r)),
        3 | 4 => {
            let n = r.gen_range(0, 4);
            Leaf::Str((0..n).map(|_| *pick(r, chars)).collect())
        }
        5 | 6 => {
            let n = r.gen_range(0, 4);
            Leaf::Sub((0..n).map(|_| *pick(r, chars)).collect())
        }
        _ => Leaf::Always,
    }
}

pub fn c18(log: &mut Log, seed: u64, tier: &str) {
    let thorough = tier == "thorough";
    let mut r = rng(seed, 18);
    let ws_ascii = words(if thorough { 5 } else { 4 });
    let rounds = if thorough { 400 } else { 60 };
    // the second half of the rounds: patterns with a two-byte character, strings over its bytes
    let ws_utf8 = words_over(&[b'a', 0xC3, 0xA9, 0], 4);
    for round in 0..(rounds + rounds / 2) {
        let utf8 = round >= rounds;
        let ws = if utf8 { &ws_utf8 } else { &ws_ascii };
        macro_rules! emit {
            ($expr:expr, $aut:expr) => {{
                let aut = $aut;
                match guard(|| drive(&aut, &ws[..])) {
                    Ok(runs) => log.ev(json!({"ev": "AutRun", "expr": $expr, "runs": runs})),
                    Err(p) => log.ev(json!({"ev": "Panic", "in": "AutRun", "msg": p, "expr": $expr})),
                }
            }};
        }
        let a = if utf8 { random_leaf_over(&mut r, &['a', '\u{e9}']) } else { random_leaf(&mut r) };
        let b = if utf8 { random_leaf_over(&mut r, &['a', '\u{e9}']) } else { random_leaf(&mut r) };
        let (ja, jb_) = (a.json(), b.json());
        emit!(ja.clone(), a.clone());
        emit!(json!(["SW", ja]), a.clone().starts_with());
        emit!(json!(["C", ja]), a.clone().complement());
        emit!(json!(["U", ja, jb_]), a.clone().union(b.clone()));
        emit!(json!(["I", ja, jb_]), a.clone().intersection(b.clone()));
        emit!(json!(["C", ["U", ja, jb_]]), a.clone().union(b.clone()).complement());
        emit!(json!(["SW", ["C", ja]]), a.clone().complement().starts_with());
        emit!(json!(["I", ["SW", ja], ["C", jb_]]), a.clone().starts_with().intersection(b.clone().complement()));
        emit!(json!(["U", ["C", ja], ["SW", jb_]]), a.clone().complement().union(b.clone().starts_with()));
        emit!(json!(["C", ["SW", ja]]), a.clone().starts_with().complement());
        emit!(json!(["SW", ["I", ja, jb_]]), a.clone().intersection(b.clone()).starts_with());
        emit!(json!(["C", ["C", ja]]), a.clone().complement().complement());
        emit!(json!(["I", ja, ["C", ja]]), a.clone().intersection(a.clone().complement()));
        emit!(json!(["SW", ["U", ja, jb_]]), a.clone().union(b.clone()).starts_with());
        emit!(json!(["U", ["SW", ja], ["SW", jb_]]), a.clone().starts_with().union(b.clone().starts_with()));
        emit!(json!(["C", ["I", ja, ["C", jb_]]]), a.clone().intersection(b.clone().complement()).complement());
        emit!(json!(["SW", ["SW", ja]]), a.clone().starts_with().starts_with());
        emit!(json!(["I", ["U", ja, jb_], ["C", ["SW", ja]]]), a.clone().union(b.clone()).intersection(a.clone().starts_with().complement()));
        // through a reference (impl Automaton for &T)
        emit!(json!(["U", ja, jb_]), (&a).union(&b));
    }
}
