//! Beyond the listed properties: the remaining commands of the `fst` CLI (range, union, verify,
//! grep, fuzzy, dupes, sorted set/map builds), judged by TLC against layer A (Trace_Cli.tla).

use crate::common::*;
use crate::scen_lev::ALPHABET;
use crate::taut::tabulate;
use rand::rngs::StdRng;
use rand::Rng;
use serde_json::{json, Value};
use std::path::Path;
use std::process::Command;

fn write_map(path: &Path, items: &[(String, u64)]) {
    let mut b = fst::MapBuilder::new(std::io::BufWriter::new(std::fs::File::create(path).unwrap())).unwrap();
    for (k, v) in items {
        b.insert(k, *v).unwrap();
    }
    b.finish().unwrap();
}

fn jrows(items: &[(String, u64)]) -> Value {
    Value::Array(items.iter().map(|(k, v)| json!([jb(k.as_bytes()), ju(*v)])).collect())
}

/// Parse `key,value` CSV lines (keys here never contain commas or quotes).
fn parse_out(out: &[u8], with_values: bool) -> Vec<(String, u64)> {
    String::from_utf8_lossy(out)
        .lines()
        .map(|l| {
            if with_values {
                match l.rfind(',') {
                    Some(i) => (l[..i].to_string(), l[i + 1..].parse().unwrap_or(u64::MAX)),
                    None => (l.to_string(), u64::MAX),
                }
            } else {
                (l.to_string(), 0)
            }
        })
        .collect()
}

fn rand_items(r: &mut StdRng, n: usize, alpha: &[char], maxlen: usize) -> Vec<(String, u64)> {
    let mut keys: Vec<String> = (0..n).map(|_| (0..r.gen_range(1, maxlen + 1)).map(|_| alpha[r.gen_range(0, alpha.len())]).collect()).collect();
    keys.sort();
    keys.dedup();
    keys.into_iter().map(|k| (k, r.gen_range(0, 100000))).collect()
}

pub fn cli(log: &mut Log, seed: u64, tier: &str, fst_bin: &str, work: &str) {
    let thorough = tier == "thorough";
    let mut r = rng(seed, 21);
    let work = Path::new(work);
    let _ = std::fs::remove_dir_all(work);
    std::fs::create_dir_all(work).unwrap();
    let rounds = if thorough { 60 } else { 15 };
    let letters = ['a', 'b', 'c', 'x'];
    for round in 0..rounds {
        let n0 = *pick(&mut r, &[0usize, 1, 5, 20, 60]);
        let items = rand_items(&mut r, n0, &letters, 4);
        let f = work.join("m.fst");
        write_map(&f, &items);
        // range
        for _ in 0..4 {
            let s: Option<String> = if r.gen_range(0, 3) == 0 { None } else { Some((0..r.gen_range(1, 4)).map(|_| letters[r.gen_range(0, 4)]).collect()) };
            let e: Option<String> = if r.gen_range(0, 3) == 0 { None } else { Some((0..r.gen_range(1, 4)).map(|_| letters[r.gen_range(0, 4)]).collect()) };
            let mut cmd = Command::new(fst_bin);
            cmd.arg("range").arg(&f).arg("--outputs");
            if let Some(s) = &s {
                cmd.arg("-s").arg(s);
            }
            if let Some(e) = &e {
                cmd.arg("-e").arg(e);
            }
            let o = cmd.output().unwrap();
            let out = parse_out(&o.stdout, true);
            let opt = |x: &Option<String>| match x {
                Some(x) => json!([jb(x.as_bytes())]),
                None => json!([]),
            };
            log.ev(json!({"ev": "CliRange", "items": jrows(&items), "s": opt(&s), "e": opt(&e), "exit": o.status.code().unwrap_or(-1), "out": jrows(&out)}));
        }
        // verify: untouched, and with one byte altered
        {
            let o = Command::new(fst_bin).arg("verify").arg(&f).output().unwrap();
            log.ev(json!({"ev": "CliVerify", "altered": false, "exit": o.status.code().unwrap_or(-1)}));
            let mut bytes = std::fs::read(&f).unwrap();
            let pos = r.gen_range(8, bytes.len());
            bytes[pos] ^= 1 << r.gen_range(0, 8);
            let g = work.join("alt.fst");
            std::fs::write(&g, &bytes).unwrap();
            let o = Command::new(fst_bin).arg("verify").arg(&g).output().unwrap();
            log.ev(json!({"ev": "CliVerify", "altered": true, "pos": pos, "exit": o.status.code().unwrap_or(-1)}));
        }
        // union of sets
        {
            let k = r.gen_range(1, 4);
            let mut ins = vec![];
            let mut cmd = Command::new(fst_bin);
            cmd.arg("union");
            for j in 0..k {
                let n1 = *pick(&mut r, &[0usize, 3, 15]);
                let it: Vec<(String, u64)> = rand_items(&mut r, n1, &letters, 3).into_iter().map(|(k, _)| (k, 0)).collect();
                let p = work.join(format!("s{}.fst", j));
                write_map(&p, &it);
                cmd.arg(&p);
                ins.push(it);
            }
            let outp = work.join("u.fst");
            let _ = std::fs::remove_file(&outp);
            cmd.arg(&outp);
            let o = cmd.output().unwrap();
            let out: Vec<(String, u64)> = std::fs::read(&outp)
                .ok()
                .and_then(|b| fst::Map::new(b).ok())
                .map(|m| m.stream().into_str_vec().unwrap_or_default())
                .unwrap_or_default();
            log.ev(json!({"ev": "CliUnion", "ins": ins.iter().map(|i| jrows(i)).collect::<Vec<_>>(), "exit": o.status.code().unwrap_or(-1), "out": jrows(&out)}));
        }
        // grep: the same DFA options as the CLI, tabulated through the Automaton trait
        for pat in &["a.*", "[ab]+", ".*x", "(a|b)c?", "[^x]*"] {
            if round % 3 != 0 {
                break;
            }
            let dfa = match regex_automata::dense::Builder::new().anchored(true).byte_classes(true).premultiply(true).build(pat) {
                Ok(d) => d,
                Err(_) => continue,
            };
            let table = match tabulate(&dfa, 400) {
                Some(t) => t,
                None => continue,
            };
            let mut aut = table.to_json(1);
            aut.as_object_mut().unwrap().remove("ev");
            // plain, and with the DFA minimised.  (`--start` / `--end` of `fst grep` and `fst fuzzy` are declared
            // as flags without a value at the pinned commit, so a bound cannot be passed at all: the command
            // line parser rejects it.  Recorded in DESIGN.md as an observation outside the listed properties.)
            for variant in 0..2 {
                let s: Option<String> = None;
                let e: Option<String> = None;
                let mut cmd = Command::new(fst_bin);
                cmd.arg("grep").arg(&f).arg(pat).arg("--outputs");
                if let Some(s) = &s {
                    cmd.arg("--start").arg(s);
                }
                if let Some(e) = &e {
                    cmd.arg("--end").arg(e);
                }
                if variant == 1 {
                    cmd.env("FST_BIN_DFA_MINIMIZE", "1");
                }
                let o = cmd.output().unwrap();
                let out = parse_out(&o.stdout, true);
                let opt = |x: &Option<String>| match x {
                    Some(x) => json!([jb(x.as_bytes())]),
                    None => json!([]),
                };
                log.ev(json!({"ev": "CliGrep", "items": jrows(&items), "pat": pat, "aut": aut, "s": opt(&s), "e": opt(&e), "exit": o.status.code().unwrap_or(-1), "out": jrows(&out)}));
            }
        }
        // fuzzy over multi-byte characters
        {
            let n = *pick(&mut r, &[3usize, 10, 30]);
            let mut ks: Vec<Vec<usize>> = (0..n).map(|_| (0..r.gen_range(0, 4)).map(|_| r.gen_range(1, ALPHABET.len() + 1)).collect()).collect();
            ks.retain(|k| !k.is_empty());
            let text = |k: &Vec<usize>| -> String { k.iter().map(|&c| ALPHABET[c - 1]).collect() };
            let mut its: Vec<(String, u64)> = ks.iter().map(|k| (text(k), 0)).collect();
            its.sort();
            its.dedup();
            let g = work.join("z.fst");
            write_map(&g, &its);
            let back: std::collections::HashMap<String, Vec<usize>> = ks.iter().map(|k| (text(k), k.clone())).collect();
            let q: Vec<usize> = (0..r.gen_range(1, 4)).map(|_| r.gen_range(1, ALPHABET.len() + 1)).collect();
            let d = r.gen_range(0, 3);
            let prefix = r.gen_range(0, 2) == 0;
            let mut cmd = Command::new(fst_bin);
            cmd.arg("fuzzy").arg(&g).arg(text(&q)).arg("-d").arg(d.to_string());
            if prefix {
                cmd.arg("--prefix");
            }
            let o = cmd.output().unwrap();
            let out: Vec<Vec<usize>> = String::from_utf8_lossy(&o.stdout).lines().map(|l| back.get(l).cloned().unwrap_or_else(|| vec![99])).collect();
            let keys: Vec<Vec<usize>> = its.iter().map(|(k, _)| back[k].clone()).collect();
            log.ev(json!({"ev": "CliFuzzy", "q": q, "d": d, "prefix": prefix, "keys": keys, "exit": o.status.code().unwrap_or(-1), "out": out}));
        }
        // dupes
        if !items.is_empty() {
            let o = Command::new(fst_bin).arg("dupes").arg(&f).output().unwrap();
            let s = String::from_utf8_lossy(&o.stdout).to_string();
            let num = |tag: &str| -> i64 { s.lines().find(|l| l.starts_with(tag)).and_then(|l| l.split(':').nth(1)).and_then(|x| x.trim().parse().ok()).unwrap_or(-1) };
            log.ev(json!({"ev": "CliDupes", "items": jrows(&items), "total": num("Total nodes"), "unique": num("Unique nodes"), "exit": o.status.code().unwrap_or(-1)}));
        }
        // sorted builds, with and without an ordering violation
        for kind in &["set", "map"] {
            let n2 = *pick(&mut r, &[1usize, 4, 12]);
            let mut rows: Vec<(String, u64)> = rand_items(&mut r, n2, &letters, 3);
            if *kind == "set" {
                for x in rows.iter_mut() {
                    x.1 = 0;
                }
            }
            match r.gen_range(0, 4) {
                0 if rows.len() > 1 => {
                    let i = r.gen_range(1, rows.len());
                    rows.swap(i - 1, i);
                }
                1 if !rows.is_empty() => {
                    let i = r.gen_range(0, rows.len());
                    let dup = rows[i].clone();
                    rows.insert(i, dup);
                }
                _ => {}
            }
            let inp = work.join("rows.txt");
            let mut s = String::new();
            for (k, v) in &rows {
                if *kind == "set" {
                    s.push_str(&format!("{}\n", k));
                } else {
                    s.push_str(&format!("{},{}\n", k, v));
                }
            }
            std::fs::write(&inp, s).unwrap();
            let outp = work.join("sorted.fst");
            let _ = std::fs::remove_file(&outp);
            let o = Command::new(fst_bin).arg(kind).arg(&inp).arg(&outp).arg("--sorted").output().unwrap();
            let exit = o.status.code().unwrap_or(-1);
            let out: Vec<(String, u64)> = if exit == 0 {
                std::fs::read(&outp).ok().and_then(|b| fst::Map::new(b).ok()).map(|m| m.stream().into_str_vec().unwrap_or_default()).unwrap_or_default()
            } else {
                vec![]
            };
            log.ev(json!({"ev": "CliSorted", "kind": kind, "rows": jrows(&rows), "exit": exit, "out": jrows(&out)}));
        }
    }
    // an output path that is already taken: refused (and left alone) without --force, replaced with it
    for round in 0..(if thorough { 24 } else { 8 }) {
        let cmdname = ["set", "map", "union"][round % 3];
        let existing = round % 4 != 3;
        let force = round % 2 == 1;
        let nr = *pick(&mut r, &[1usize, 5, 20]);
        let mut rows = rand_items(&mut r, nr, &letters, 3);
        if cmdname != "map" {
            for x in rows.iter_mut() {
                x.1 = 0;
            }
        }
        let outp = work.join("taken.fst");
        let _ = std::fs::remove_file(&outp);
        let old: Vec<u8> = (0..r.gen_range(1, 5000)).map(|_| r.gen()).collect();
        if existing {
            std::fs::write(&outp, &old).unwrap();
        }
        let mut cmd = Command::new(fst_bin);
        cmd.arg(cmdname);
        if cmdname == "union" {
            let p = work.join("u_in.fst");
            write_map(&p, &rows);
            cmd.arg(&p).arg(&outp);
        } else {
            let inp = work.join("rows2.txt");
            let mut s = String::new();
            for (k, v) in &rows {
                if cmdname == "set" {
                    s.push_str(&format!("{}\n", k));
                } else {
                    s.push_str(&format!("{},{}\n", k, v));
                }
            }
            std::fs::write(&inp, s).unwrap();
            cmd.arg(&inp).arg(&outp).arg("--sorted");
        }
        if force {
            cmd.arg("--force");
        }
        let o = cmd.output().unwrap();
        let now = std::fs::read(&outp).ok();
        let untouched = existing && now.as_deref() == Some(&old[..]);
        let out: Vec<(String, u64)> = now.and_then(|b| fst::Map::new(b).ok()).map(|m| m.stream().into_str_vec().unwrap_or_default()).unwrap_or_default();
        log.ev(json!({"ev": "CliForce", "cmd": cmdname, "existing": existing, "force": force, "rows": jrows(&rows), "exit": o.status.code().unwrap_or(-1),
                      "untouched": untouched, "out": jrows(&out)}));
    }
    let _ = std::fs::remove_dir_all(work);
}
