//! C13 / C14: heap measurements of builders, traversals and set operations (judged by TLC
//! against the bounds of Mem.tla).

use crate::alloc;
use crate::common::*;
use crate::taut::TableAut;
use fst::raw::{Builder, Fst};
use fst::{IntoStreamer, Streamer};
use serde_json::json;
use std::io;

const KEYLEN: usize = 12;
const SYMS: &[u8] = b"abcd";

/// Fixed-length base-4 numerals of an increasing counter: bounded fan-out (4) and key length (12),
/// strictly increasing, no allocation.
struct KeyGen {
    c: u64,
    x: u64,
    maxstep: u64,
    buf: [u8; KEYLEN],
}
impl KeyGen {
    fn new(seed: u64, maxstep: u64) -> KeyGen {
        KeyGen { c: 0, x: seed | 1, maxstep, buf: [b'a'; KEYLEN] }
    }
    fn next(&mut self) -> (&[u8], u64) {
        self.x = self.x.wrapping_mul(6364136223846793005).wrapping_add(1442695040888963407);
        self.c += 1 + (self.x >> 33) % self.maxstep;
        let mut v = self.c;
        for i in (0..KEYLEN).rev() {
            self.buf[i] = SYMS[(v % 4) as usize];
            v /= 4;
        }
        (&self.buf, self.c)
    }
}

fn numeral(mut v: u64) -> [u8; KEYLEN] {
    let mut buf = [b'a'; KEYLEN];
    for i in (0..KEYLEN).rev() {
        buf[i] = SYMS[(v % 4) as usize];
        v /= 4;
    }
    buf
}

struct NumStream {
    i: u64,
    n: u64,
    step: u64,
    buf: [u8; KEYLEN],
}
impl<'a> Streamer<'a> for NumStream {
    type Item = (&'a [u8], u64);
    fn next(&'a mut self) -> Option<(&'a [u8], u64)> {
        if self.i >= self.n {
            return None;
        }
        self.i += 1;
        self.buf = numeral(self.i * self.step);
        Some((&self.buf, self.i))
    }
}

/// Bulk loads: extend_iter with an exact size hint, extend_stream, on map and set builders.
fn c13_bulk(log: &mut Log, ns: &[usize]) {
    for &(geo, gname) in &[(Some((64usize, 2usize)), "64x2"), (None, "default")] {
        for &path in &["map_extend_iter", "set_extend_iter", "raw_extend_iter", "map_extend_stream"] {
            for &n in ns.iter().filter(|&&n| n <= 1_000_000) {
                let step = std::cmp::max(1, (16_000_000 / n) as u64);
                fst::raw::verif::set_geometry(geo);
                let snap = alloc::begin();
                let (r, c) = match path {
                    "map_extend_iter" => {
                        let mut b = fst::MapBuilder::new(io::sink()).unwrap();
                        let g = fst::raw::verif::last_geometry();
                        b.extend_iter((1..=n as u64).map(|i| (numeral(i * step), i))).unwrap();
                        let x = alloc::read(&snap);
                        b.finish().unwrap();
                        (x, g)
                    }
                    "set_extend_iter" => {
                        let mut b = fst::SetBuilder::new(io::sink()).unwrap();
                        let g = fst::raw::verif::last_geometry();
                        b.extend_iter((1..=n as u64).map(|i| numeral(i * step))).unwrap();
                        let x = alloc::read(&snap);
                        b.finish().unwrap();
                        (x, g)
                    }
                    "raw_extend_iter" => {
                        let mut b = Builder::new(io::sink()).unwrap();
                        let g = fst::raw::verif::last_geometry();
                        b.extend_iter((1..=n as u64).map(|i| (numeral(i * step), fst::raw::Output::new(i)))).unwrap();
                        let x = alloc::read(&snap);
                        b.finish().unwrap();
                        (x, g)
                    }
                    _ => {
                        let mut b = fst::MapBuilder::new(io::sink()).unwrap();
                        let g = fst::raw::verif::last_geometry();
                        b.extend_stream(NumStream { i: 0, n: n as u64, step, buf: [b'a'; KEYLEN] }).unwrap();
                        let x = alloc::read(&snap);
                        b.finish().unwrap();
                        (x, g)
                    }
                };
                fst::raw::verif::set_geometry(None);
                log.ev(json!({"ev": "Mem", "what": "build", "scenario": format!("build-{}-{}", path, gname), "n": n, "k": 1, "cells": c.0 * c.1,
                              "maxFan": 4, "maxKeyLen": KEYLEN, "live": jn(r.0), "peak": jn(r.1), "allocs": jn(r.2)}));
            }
        }
    }
}

/// A sink that stores nothing and takes at most `cap` bytes per call, or interrupts every other call.
struct Trickle {
    cap: usize,
    interrupt: bool,
    calls: u64,
}
impl io::Write for Trickle {
    fn write(&mut self, buf: &[u8]) -> io::Result<usize> {
        self.calls += 1;
        if self.interrupt && self.calls % 2 == 1 {
            return Err(io::Error::new(io::ErrorKind::Interrupted, "again"));
        }
        Ok(std::cmp::min(self.cap, buf.len()))
    }
    fn flush(&mut self) -> io::Result<()> {
        Ok(())
    }
}

/// The builder's memory does not depend on how the sink takes the bytes: sinks that accept a few
/// bytes per call (slower than the builder produces them) or interrupt.
fn c13_sinks(log: &mut Log, ns: &[usize]) {
    for &(cap, interrupt, sname) in &[(1usize, false, "cap1"), (3, false, "cap3"), (7, false, "cap7"), (1 << 20, true, "intr"), (2, true, "cap2intr")] {
        for &set in &[false, true] {
            if set && cap != 3 {
                continue;
            }
            // two key families: numerals (about a byte of output per key: slow sinks keep up) and
            // numerals with eight scrambled letters behind them (every key leaves some twenty bytes of
            // nodes: more than the slow sinks take per call)
            for &tail in &[false, true] {
                for &n in ns.iter().filter(|&&n| n <= 1_000_000) {
                    let step = std::cmp::max(1, (16_000_000 / n) as u64);
                    fst::raw::verif::set_geometry(Some((64, 2)));
                    let snap = alloc::begin();
                    let mut b = Builder::new(Trickle { cap, interrupt, calls: 0 }).unwrap();
                    let g = fst::raw::verif::last_geometry();
                    let mut key = [0u8; KEYLEN + 8];
                    for i in 1..=n as u64 {
                        key[..KEYLEN].copy_from_slice(&numeral(i * step));
                        let mut h = i.wrapping_mul(0x9E37_79B9_7F4A_7C15);
                        for x in key[KEYLEN..].iter_mut() {
                            *x = b'a' + ((h >> 59) as u8 % 26);
                            h = h.wrapping_mul(0x2545_F491_4F6C_DD1D).rotate_left(17);
                        }
                        let k: &[u8] = if tail { &key[..] } else { &key[..KEYLEN] };
                        if set {
                            b.add(k).unwrap();
                        } else {
                            b.insert(k, i).unwrap();
                        }
                    }
                    let r = alloc::read(&snap);
                    b.finish().unwrap();
                    fst::raw::verif::set_geometry(None);
                    log.ev(json!({"ev": "Mem", "what": "build", "scenario": format!("build-sink-{}-{}{}", sname, if set { "set" } else { "map" }, if tail { "-tail" } else { "" }), "n": n, "k": 1, "cells": g.0 * g.1,
                                  "maxFan": 26, "maxKeyLen": KEYLEN + 8, "live": jn(r.0), "peak": jn(r.1), "allocs": jn(r.2)}));
                }
            }
        }
    }
}

/// The complete universe of fixed-width numerals in order (a counter): after a short start every
/// frozen node is the empty final node or a cache hit, so the builder goes on for as long as one
/// likes without handing a byte to the sink.
fn c13_counter(log: &mut Log, ns: &[usize]) {
    for &(geo, gname) in &[(Some((64usize, 2usize)), "64x2"), (None, "default")] {
        for &set in &[true, false] {
            for &n in ns.iter().filter(|&&n| n <= 1_000_000) {
                fst::raw::verif::set_geometry(geo);
                let snap = alloc::begin();
                let mut b = Builder::new(io::sink()).unwrap();
                let g = fst::raw::verif::last_geometry();
                for i in 0..n as u64 {
                    if set {
                        b.add(numeral(i)).unwrap();
                    } else {
                        b.insert(numeral(i), 0).unwrap();
                    }
                }
                let written = b.bytes_written();
                let r = alloc::read(&snap);
                b.finish().unwrap();
                fst::raw::verif::set_geometry(None);
                log.ev(json!({"ev": "Mem", "what": "build", "scenario": format!("build-counter-{}-{}", if set { "set" } else { "map0" }, gname), "n": n, "k": 1, "cells": g.0 * g.1,
                              "maxFan": 4, "maxKeyLen": KEYLEN, "live": jn(r.0), "peak": jn(r.1), "allocs": jn(r.2), "written": jn(written as usize)}));
            }
        }
    }
}

pub fn c13(log: &mut Log, seed: u64, tier: &str) {
    let thorough = tier == "thorough";
    let ns: Vec<usize> = if thorough { vec![100_000, 1_000_000, 10_000_000] } else { vec![100_000, 1_000_000] };
    c13_bulk(log, &ns);
    c13_sinks(log, &ns);
    c13_counter(log, &ns);
    for &(geo, cells, gname) in &[(Some((64usize, 2usize)), 128usize, "64x2"), (None, 20000, "default")] {
        for &set in &[true, false] {
            // a second key family: every key is followed by an extension of itself, so final
            // states later gain transitions (variable-length keys, still bounded by 13 bytes)
            for &n in &ns {
                if n > 1_000_000 && !(set && gname == "64x2") {
                    continue;
                }
                let maxstep = std::cmp::max(1, (16_000_000 / n) as u64);
                let mut gen = KeyGen::new(seed + 7 + n as u64, maxstep * 2);
                fst::raw::verif::set_geometry(geo);
                let snap = alloc::begin();
                let mut b = Builder::new(io::sink()).unwrap();
                let cells = { let (r, c) = fst::raw::verif::last_geometry(); let _ = cells; r * c };
                let mut ext = [b'a'; KEYLEN + 1];
                for i in 0..(n / 2) {
                    let (k, c) = gen.next();
                    ext[..KEYLEN].copy_from_slice(k);
                    ext[KEYLEN] = SYMS[i % 4];
                    if set {
                        b.add(&ext[..KEYLEN]).unwrap();
                        b.add(&ext[..]).unwrap();
                    } else {
                        b.insert(&ext[..KEYLEN], c * 2).unwrap();
                        b.insert(&ext[..], c * 2 + 1).unwrap();
                    }
                }
                let (live, peak, allocs) = alloc::read(&snap);
                b.finish().unwrap();
                fst::raw::verif::set_geometry(None);
                log.ev(json!({"ev": "Mem", "what": "build", "scenario": format!("build-prefixkeys-{}-{}", if set { "set" } else { "map" }, gname),
                              "n": n, "k": 1, "cells": cells, "maxFan": 4, "maxKeyLen": KEYLEN + 1, "live": jn(live), "peak": jn(peak), "allocs": jn(allocs)}));
            }
            // a seventh family: n short keys, one key of 100 bytes, a thousand short keys more
            for &n in &ns {
                if n > 1_000_000 {
                    continue;
                }
                fst::raw::verif::set_geometry(geo);
                let snap = alloc::begin();
                let mut b = Builder::new(io::sink()).unwrap();
                let cells = { let (r, c) = fst::raw::verif::last_geometry(); let _ = cells; r * c };
                let mut key = *b"s000000000";
                let put = |b: &mut Builder<io::Sink>, k: &[u8], v: u64| if set { b.add(k).unwrap() } else { b.insert(k, v).unwrap() };
                for i in 0..n {
                    let mut x = i;
                    for d in (1..10).rev() {
                        key[d] = b'0' + (x % 10) as u8;
                        x /= 10;
                    }
                    put(&mut b, &key, i as u64);
                }
                let long = [b't'; 100];
                put(&mut b, &long, 5);
                for i in 0..1000usize {
                    let k = format!("u{:05}", i);
                    put(&mut b, k.as_bytes(), i as u64);
                }
                let (live, peak, allocs) = alloc::read(&snap);
                b.finish().unwrap();
                fst::raw::verif::set_geometry(None);
                log.ev(json!({"ev": "Mem", "what": "build", "scenario": format!("build-longkey-late-{}-{}", if set { "set" } else { "map" }, gname),
                              "n": n, "k": 1, "cells": cells, "maxFan": 10, "maxKeyLen": 100, "live": jn(live), "peak": jn(peak), "allocs": jn(allocs)}));
            }
            // a sixth family (sets): sorted but not de-duplicated input - long runs of the same key
            if set {
                for &n in &ns {
                    if n > 1_000_000 {
                        continue;
                    }
                    fst::raw::verif::set_geometry(geo);
                    let snap = alloc::begin();
                    let mut b = Builder::new(io::sink()).unwrap();
                    let cells = { let (r, c) = fst::raw::verif::last_geometry(); let _ = cells; r * c };
                    let mut key = *b"run:0000";
                    for g in 0..16usize {
                        key[4] = b'a' + g as u8;
                        key[7] = b'0' + (g % 10) as u8;
                        for _ in 0..(n / 16) {
                            b.add(&key).unwrap();
                        }
                    }
                    let (live, peak, allocs) = alloc::read(&snap);
                    b.finish().unwrap();
                    fst::raw::verif::set_geometry(None);
                    log.ev(json!({"ev": "Mem", "what": "build", "scenario": format!("build-repeats-set-{}", gname),
                                  "n": n, "k": 1, "cells": cells, "maxFan": 16, "maxKeyLen": 8, "live": jn(live), "peak": jn(peak), "allocs": jn(allocs)}));
                }
            }
            // a seventh family: unsorted input - one high key is accepted, then a long run of pairwise
            // different keys is refused as out of order and the caller carries on after each refusal
            for &n in &ns {
                if n > 1_000_000 {
                    continue;
                }
                const DIG: &[u8] = b"0123456789ABCDEFGHIJKLMNOPQRSTUV";
                fst::raw::verif::set_geometry(geo);
                let snap = alloc::begin();
                let mut b = Builder::new(io::sink()).unwrap();
                let cells = { let (r, c) = fst::raw::verif::last_geometry(); let _ = cells; r * c };
                if set { b.add(b"zzzzzzzz").unwrap() } else { b.insert(b"zzzzzzzz", 7).unwrap() };
                let mut key = *b"key:0000";
                let mut refused = 0usize;
                for i in 0..n {
                    let mut x = i;
                    for d in (4..8).rev() {
                        key[d] = DIG[x % 32];
                        x /= 32;
                    }
                    let r = if set { b.add(&key) } else { b.insert(&key, i as u64) };
                    if r.is_err() {
                        refused += 1;
                    }
                }
                let (live, peak, allocs) = alloc::read(&snap);
                b.finish().unwrap();
                fst::raw::verif::set_geometry(None);
                let _ = refused;
                log.ev(json!({"ev": "Mem", "what": "build", "scenario": format!("build-refused-{}-{}", if set { "set" } else { "map" }, gname),
                              "n": n, "k": 1, "cells": cells, "maxFan": 2, "maxKeyLen": 8, "live": jn(live), "peak": jn(peak), "allocs": jn(allocs)}));
            }
            // a fourth family (maps): fan-out 32 at every level and strictly decreasing values, so
            // every insert pushes an output difference down into long-lived nodes near the root
            if !set {
                for &n in &ns {
                    if n > 1_000_000 {
                        continue;
                    }
                    const DIG: &[u8] = b"0123456789ABCDEFGHIJKLMNOPQRSTUV";
                    fst::raw::verif::set_geometry(geo);
                    let snap = alloc::begin();
                    let mut b = Builder::new(io::sink()).unwrap();
                    let cells = { let (r, c) = fst::raw::verif::last_geometry(); let _ = cells; r * c };
                    let mut key = *b"key:0000";
                    for i in 0..n {
                        let mut x = i;
                        for d in (4..8).rev() {
                            key[d] = DIG[x % 32];
                            x /= 32;
                        }
                        b.insert(&key, (2 * n - i) as u64).unwrap();
                    }
                    let (live, peak, allocs) = alloc::read(&snap);
                    b.finish().unwrap();
                    fst::raw::verif::set_geometry(None);
                    log.ev(json!({"ev": "Mem", "what": "build", "scenario": format!("build-decr32-map-{}", gname),
                                  "n": n, "k": 1, "cells": cells, "maxFan": 32, "maxKeyLen": 8, "live": jn(live), "peak": jn(peak), "allocs": jn(allocs)}));
                }
            }
            // a third family: very many *distinct* wide nodes (fan-out 33, above the index
            // threshold), one per group of 33 keys
            for &n in &ns {
                if n > 1_000_000 {
                    continue;
                }
                fst::raw::verif::set_geometry(geo);
                let snap = alloc::begin();
                let mut b = Builder::new(io::sink()).unwrap();
                let cells = { let (r, c) = fst::raw::verif::last_geometry(); let _ = cells; r * c };
                let mut key = [0u8; 7];
                let mut x = seed.wrapping_mul(0x9E37_79B9_7F4A_7C15) | 1;
                for g in 0..(n / 33) {
                    let hex = format!("{:06x}", g);
                    key[..6].copy_from_slice(hex.as_bytes());
                    for j in 0..33u8 {
                        key[6] = b'A' + j;
                        x ^= x << 13;
                        x ^= x >> 7;
                        x ^= x << 17;
                        if set {
                            // (sets share their wide nodes; the groups still differ by their prefix)
                            b.add(&key).unwrap();
                        } else {
                            b.insert(&key, x >> 24).unwrap();
                        }
                    }
                }
                let (live, peak, allocs) = alloc::read(&snap);
                b.finish().unwrap();
                fst::raw::verif::set_geometry(None);
                log.ev(json!({"ev": "Mem", "what": "build", "scenario": format!("build-wide33-{}-{}", if set { "set" } else { "map" }, gname),
                              "n": n, "k": 1, "cells": cells, "maxFan": 33, "maxKeyLen": 7, "live": jn(live), "peak": jn(peak), "allocs": jn(allocs)}));
            }
            for &n in &ns {
                // 4^12 keys exist: keep the counter below that
                let maxstep = std::cmp::max(1, (16_000_000 / n) as u64);
                let mut gen = KeyGen::new(seed + n as u64, maxstep);
                fst::raw::verif::set_geometry(geo);
                let snap = alloc::begin();
                let mut b = Builder::new(io::sink()).unwrap();
                let cells = { let (r, c) = fst::raw::verif::last_geometry(); let _ = cells; r * c };
                let mut mid_peak = 0;
                for i in 0..n {
                    let (k, c) = gen.next();
                    if set {
                        b.add(k).unwrap();
                    } else {
                        b.insert(k, c).unwrap();
                    }
                    if i == n / 2 {
                        mid_peak = alloc::read(&snap).1;
                    }
                }
                let (live, peak, allocs) = alloc::read(&snap);
                let written = b.bytes_written();
                b.finish().unwrap();
                fst::raw::verif::set_geometry(None);
                log.ev(json!({"ev": "Mem", "what": "build", "scenario": format!("build-{}-{}", if set { "set" } else { "map" }, gname),
                              "n": n, "k": 1, "cells": cells, "maxFan": 4, "maxKeyLen": KEYLEN, "live": jn(live), "peak": jn(peak),
                              "mid_peak": jn(mid_peak), "allocs": jn(allocs), "bytes_written": jn(written as usize)}));
            }
        }
    }
}

fn build_map(n: usize, seed: u64, maxstep: u64) -> Vec<u8> {
    let mut gen = KeyGen::new(seed, maxstep);
    let mut b = Builder::memory();
    for i in 0..n {
        let (k, _) = gen.next();
        b.insert(k, i as u64).unwrap();
    }
    b.into_inner().unwrap()
}

/// Point lookups through nodes of every fan-out (linear scan, index table, every node form)
/// and through the corpora allocate nothing.
fn c14_lookup_shapes(log: &mut Log) {
    let mut shapes: Vec<(String, Vec<Vec<u8>>)> = vec![];
    for f in 1..=256usize {
        // a root of fan-out f over an inner node of fan-out f
        let mut keys = vec![];
        for a in 0..f {
            let fan2 = if a == 0 { f } else { 1 };
            for b in 0..fan2 {
                keys.push(vec![a as u8, b as u8, b't']);
            }
        }
        keys.sort();
        shapes.push((format!("fanout-{}", f), keys));
    }
    for name in &["words-10000", "wiki-urls-10000"] {
        let keys = read_lines(name);
        if !keys.is_empty() {
            shapes.push((name.to_string(), keys));
        }
    }
    // keys that are prefixes of the keys after them (final nodes with transitions)
    shapes.push(("prefix-chains".to_string(), {
        let mut v: Vec<Vec<u8>> = vec![];
        for a in [b'k', b'W', 0x00u8, 0xFF].iter() {
            let mut k = vec![*a];
            v.push(k.clone());
            for d in 0..6u8 {
                k.push(b'x' + d % 3);
                v.push(k.clone());
            }
        }
        v.sort();
        v
    }));
    // value scales: outputs packed in 1-2, 5, 6, 7 and 8 bytes
    let shapes: Vec<(String, Vec<Vec<u8>>, bool, u32)> = shapes
        .into_iter()
        .flat_map(|(n, k)| {
            let mut v = vec![(n.clone(), k.clone(), false, 0u32), (format!("{}-decreasing", n), k.clone(), true, 0)];
            if k.len() <= 600 && (n.ends_with('7') || n.ends_with('3') || !n.starts_with("fanout")) {
                for &sh in &[33u32, 41, 49, 57] {
                    v.push((format!("{}-shl{}", n, sh), k.clone(), sh == 41, sh));
                }
            }
            v
        })
        .collect();
    for (name, keys, decreasing, shl) in shapes {
        if decreasing && keys.len() > 2000 && name.starts_with("wiki") {
            continue;
        }
        let mut b = Builder::memory();
        for (i, k) in keys.iter().enumerate() {
            // (decreasing values leave non-zero final outputs on keys that are prefixes of later keys)
            let v = if decreasing { ((keys.len() - i) as u64) * 7 + 1 } else { (i as u64) * 3 + (shl > 0) as u64 };
            b.insert(k, v << (shl % 64)).unwrap();
        }
        let bytes = b.into_inner().unwrap();
        let maxlen = keys.iter().map(|k| k.len()).max().unwrap_or(0);
        let mut probe = vec![0u8; maxlen + 1];
        let snap = alloc::begin();
        let f = Fst::new(&bytes[..]).unwrap();
        let m = fst::Map::new(&bytes[..]).unwrap();
        let mut hits = 0usize;
        for k in &keys {
            hits += f.get(k).is_some() as usize + f.contains_key(k) as usize + m.contains_key(k) as usize;
            // an absent extension and an absent sibling
            probe[..k.len()].copy_from_slice(k);
            probe[k.len()] = b'z';
            hits += f.contains_key(&probe[..k.len() + 1]) as usize;
            if let Some(last) = probe[..k.len()].last_mut() {
                *last = last.wrapping_add(1);
            }
            hits += m.get(&probe[..k.len()]).is_some() as usize;
        }
        let (_, peak, allocs) = alloc::read(&snap);
        log.ev(json!({"ev": "Mem", "what": "noalloc", "scenario": format!("open-get-{}", name), "n": keys.len(), "k": 1, "maxKeyLen": maxlen,
                      "peak": jn(peak), "allocs": jn(allocs), "hits": hits}));
    }
}

/// Long keys: scans that start from a lower bound spelling a long existing path (the seek walks
/// 100+ nodes before the iteration starts), bounded above, and searches, over N and 10 N keys.
fn c14_long_keys(log: &mut Log, seed: u64, thorough: bool) {
    const PRE: usize = 120;
    let ns: &[usize] = if thorough { &[10_000, 100_000, 1_000_000] } else { &[10_000, 100_000] };
    for &n in ns {
        let maxstep = std::cmp::max(1, (16_000_000 / n) as u64);
        let mut gen = KeyGen::new(seed + 99, maxstep);
        let mut key = vec![0u8; PRE + KEYLEN];
        for (i, b) in key[..PRE].iter_mut().enumerate() {
            *b = b'a' + (i % 23) as u8;
        }
        let mut b = Builder::memory();
        let mut first = vec![];
        let mut mid = vec![];
        for i in 0..n {
            let (k, _) = gen.next();
            key[PRE..].copy_from_slice(k);
            b.insert(&key, i as u64).unwrap();
            if i == 0 {
                first = key.clone();
            }
            if i == n / 3 {
                mid = key.clone();
            }
        }
        let bytes = b.into_inner().unwrap();
        let f = Fst::new(&bytes[..]).unwrap();
        let bounds: Vec<(&str, Vec<u8>)> = vec![("ge-prefix65", first[..65].to_vec()), ("ge-prefix", first[..PRE].to_vec()), ("gt-key", mid.clone()), ("ge-key-ext", { let mut x = mid.clone(); x.push(0); x })];
        for (name, lo) in &bounds {
            let snap = alloc::begin();
            let mut s = if name.starts_with("gt") { f.range().gt(lo).into_stream() } else { f.range().ge(lo).into_stream() };
            let mut items = 0usize;
            while let Some(_) = s.next() {
                items += 1;
            }
            let (_, peak, allocs) = alloc::read(&snap);
            drop(s);
            log.ev(json!({"ev": "Mem", "what": "range", "scenario": format!("range-long-{}", name), "n": n, "k": 1, "maxKeyLen": PRE + KEYLEN + 1,
                          "peak": jn(peak), "allocs": jn(allocs), "items": items}));
        }
        // the same with an automaton on top (every key matches)
        {
            let aut = TableAut { n: 1, start: 1, cls: vec![1usize; 256], delta: vec![vec![1]], matches: vec![true], can: vec![true], always: vec![false], eof: vec![] };
            let snap = alloc::begin();
            let mut s = f.search(&aut).ge(&first[..PRE]).into_stream();
            let mut items = 0usize;
            while let Some(_) = s.next() {
                items += 1;
            }
            let (_, peak, allocs) = alloc::read(&snap);
            drop(s);
            log.ev(json!({"ev": "Mem", "what": "search", "scenario": "search-long-ge-prefix", "n": n, "k": 1, "maxKeyLen": PRE + KEYLEN + 1,
                          "peak": jn(peak), "allocs": jn(allocs), "items": items}));
        }
    }
}

pub fn c14(log: &mut Log, seed: u64, tier: &str) {
    let thorough = tier == "thorough";
    c14_lookup_shapes(log);
    c14_long_keys(log, seed, thorough);
    let ns: Vec<usize> = if thorough { vec![10_000, 100_000, 1_000_000] } else { vec![10_000, 100_000] };
    for &n in &ns {
        let bytes = build_map(n, seed, std::cmp::max(1, (16_000_000 / n) as u64));
        let probe_keys: Vec<Vec<u8>> = {
            let f = Fst::new(&bytes[..]).unwrap();
            let mut v = vec![];
            let mut s = f.stream();
            let mut i = 0;
            while let Some((k, _)) = s.next() {
                if i % std::cmp::max(1, n / 500) == 0 {
                    v.push(k.to_vec());
                    let mut absent = k.to_vec();
                    absent.push(b'z');
                    v.push(absent);
                }
                i += 1;
            }
            v
        };
        // opening over borrowed bytes and point lookups allocate nothing
        {
            let snap = alloc::begin();
            let f = Fst::new(&bytes[..]).unwrap();
            let mut hits = 0usize;
            for k in &probe_keys {
                if f.get(k).is_some() {
                    hits += 1;
                }
                if f.contains_key(k) {
                    hits += 1;
                }
            }
            let m = fst::Map::new(&bytes[..]).unwrap();
            for k in probe_keys.iter().take(50) {
                if m.get(k).is_some() {
                    hits += 1;
                }
            }
            let (_, peak, allocs) = alloc::read(&snap);
            log.ev(json!({"ev": "Mem", "what": "noalloc", "scenario": "open-get-slice", "n": n, "k": 1, "maxKeyLen": KEYLEN, "peak": jn(peak), "allocs": jn(allocs), "hits": hits}));
        }
        // ... and over a memory map
        {
            let mut mm = memmap2::MmapMut::map_anon(bytes.len()).unwrap();
            mm[..bytes.len()].copy_from_slice(&bytes);
            let ro = mm.make_read_only().unwrap();
            let snap = alloc::begin();
            let f = Fst::new(&ro[..bytes.len()]).unwrap();
            let mut hits = 0usize;
            for k in &probe_keys {
                if f.get(k).is_some() {
                    hits += 1;
                }
            }
            let (_, peak, allocs) = alloc::read(&snap);
            log.ev(json!({"ev": "Mem", "what": "noalloc", "scenario": "open-get-mmap", "n": n, "k": 1, "maxKeyLen": KEYLEN, "peak": jn(peak), "allocs": jn(allocs), "hits": hits}));
        }
        let f = Fst::new(&bytes[..]).unwrap();
        // full traversal
        {
            let snap = alloc::begin();
            let mut s = f.stream();
            let mut items = 0usize;
            while let Some(_) = s.next() {
                items += 1;
            }
            let (_, peak, allocs) = alloc::read(&snap);
            drop(s);
            log.ev(json!({"ev": "Mem", "what": "stream", "scenario": "stream", "n": n, "k": 1, "maxKeyLen": KEYLEN, "peak": jn(peak), "allocs": jn(allocs), "items": items}));
        }
        // the key-only and value-only enumerations of a map, and a set's stream
        {
            let m = fst::Map::new(&bytes[..]).unwrap();
            let snap = alloc::begin();
            let mut s = m.values();
            let mut items = 0usize;
            while let Some(_) = s.next() {
                items += 1;
            }
            let (_, peak, allocs) = alloc::read(&snap);
            drop(s);
            log.ev(json!({"ev": "Mem", "what": "stream", "scenario": "values", "n": n, "k": 1, "maxKeyLen": KEYLEN, "peak": jn(peak), "allocs": jn(allocs), "items": items}));
            let snap = alloc::begin();
            let mut s = m.keys();
            let mut items = 0usize;
            while let Some(_) = s.next() {
                items += 1;
            }
            let (_, peak, allocs) = alloc::read(&snap);
            drop(s);
            log.ev(json!({"ev": "Mem", "what": "stream", "scenario": "keys", "n": n, "k": 1, "maxKeyLen": KEYLEN, "peak": jn(peak), "allocs": jn(allocs), "items": items}));
            let set = fst::Set::new(&bytes[..]).unwrap();
            let snap = alloc::begin();
            let mut s = set.stream();
            let mut items = 0usize;
            while let Some(_) = s.next() {
                items += 1;
            }
            let (_, peak, allocs) = alloc::read(&snap);
            drop(s);
            log.ev(json!({"ev": "Mem", "what": "stream", "scenario": "set-stream", "n": n, "k": 1, "maxKeyLen": KEYLEN, "peak": jn(peak), "allocs": jn(allocs), "items": items}));
        }
        // range scan
        {
            let lo = probe_keys[probe_keys.len() / 10].clone();
            let hi = probe_keys[probe_keys.len() * 9 / 10].clone();
            let snap = alloc::begin();
            let mut s = f.range().ge(&lo).lt(&hi).into_stream();
            let mut items = 0usize;
            while let Some(_) = s.next() {
                items += 1;
            }
            let (_, peak, allocs) = alloc::read(&snap);
            drop(s);
            log.ev(json!({"ev": "Mem", "what": "range", "scenario": "range", "n": n, "k": 1, "maxKeyLen": KEYLEN, "peak": jn(peak), "allocs": jn(allocs), "items": items}));
        }
        // automaton search (keys with an even number of 'b's)
        {
            let mut cls = vec![1usize; 256];
            cls[b'b' as usize] = 2;
            let mut aut = TableAut { n: 2, start: 1, cls, delta: vec![vec![1, 2], vec![2, 1]], matches: vec![true, false], can: vec![true, true], always: vec![false, false], eof: vec![] };
            aut.exact_hints();
            let snap = alloc::begin();
            let mut s = f.search(&aut).into_stream();
            let mut items = 0usize;
            while let Some(_) = s.next() {
                items += 1;
            }
            let (_, peak, allocs) = alloc::read(&snap);
            drop(s);
            log.ev(json!({"ev": "Mem", "what": "search", "scenario": "search", "n": n, "k": 1, "maxKeyLen": KEYLEN, "peak": jn(peak), "allocs": jn(allocs), "items": items}));
        }
        // automata whose can_match turns false on nodes that still have transitions: keys without
        // the byte 'b' (dies on every b), and a Levenshtein automaton
        {
            let mut cls = vec![1usize; 256];
            cls[b'b' as usize] = 2;
            let mut aut = TableAut { n: 2, start: 1, cls, delta: vec![vec![1, 2], vec![2, 2]], matches: vec![true, false], can: vec![true, true], always: vec![false, false], eof: vec![] };
            aut.exact_hints();
            let snap = alloc::begin();
            let mut s = f.search_with_state(&aut).into_stream();
            let mut items = 0usize;
            while let Some(_) = s.next() {
                items += 1;
            }
            let (_, peak, allocs) = alloc::read(&snap);
            drop(s);
            log.ev(json!({"ev": "Mem", "what": "search", "scenario": "search-pruning", "n": n, "k": 1, "maxKeyLen": KEYLEN, "peak": jn(peak), "allocs": jn(allocs), "items": items}));
            let lev = fst::automaton::Levenshtein::new("abcdabcdabcd", 2).unwrap();
            let snap = alloc::begin();
            let mut s = f.search(&lev).into_stream();
            let mut items = 0usize;
            while let Some(_) = s.next() {
                items += 1;
            }
            let (_, peak, allocs) = alloc::read(&snap);
            drop(s);
            log.ev(json!({"ev": "Mem", "what": "search", "scenario": "search-levenshtein", "n": n, "k": 1, "maxKeyLen": KEYLEN, "peak": jn(peak), "allocs": jn(allocs), "items": items}));
        }
        // set operations over k FSTs of n/k keys each
        for &(k, shared) in &[(2usize, false), (4, false), (8, false), (2, true), (4, true), (3, true)] {
            // disjoint-ish inputs (different key sequences) or the same keys in every input, so
            // that long runs of keys are held by all (an even / odd number of) streams
            let parts: Vec<Vec<u8>> = (0..k)
                .map(|j| build_map(n / k, seed + 100 + if shared { 0 } else { j as u64 }, std::cmp::max(1, (16_000_000 / (n / k)) as u64 / 2)))
                .collect();
            let fsts: Vec<Fst<&[u8]>> = parts.iter().map(|b| Fst::new(&b[..]).unwrap()).collect();
            for op in &["union", "intersection", "difference", "symmetric_difference"] {
                let snap = alloc::begin();
                let mut items = 0usize;
                {
                    let mut b = fst::raw::OpBuilder::new();
                    for f in &fsts {
                        b.push(f);
                    }
                    macro_rules! drain {
                        ($s:expr) => {{
                            let mut s = $s;
                            while let Some(_) = s.next() {
                                items += 1;
                            }
                        }};
                    }
                    match *op {
                        "union" => drain!(b.union()),
                        "intersection" => drain!(b.intersection()),
                        "difference" => drain!(b.difference()),
                        _ => drain!(b.symmetric_difference()),
                    }
                }
                let (_, peak, allocs) = alloc::read(&snap);
                log.ev(json!({"ev": "Mem", "what": "op", "scenario": format!("{}-k{}{}", op, k, if shared { "-shared" } else { "" }), "n": n, "k": k, "maxKeyLen": KEYLEN, "peak": jn(peak), "allocs": jn(allocs), "items": items}));
            }
        }
        // the same operations through the Set and Map wrappers (their own OpBuilders and stream
        // adapters), on inputs that share every key and on inputs that share few
        for &(k, shared) in &[(2usize, true), (3, true), (2, false)] {
            let parts: Vec<Vec<u8>> = (0..k)
                .map(|j| build_map(n / k, seed + 500 + if shared { 0 } else { j as u64 }, std::cmp::max(1, (16_000_000 / (n / k)) as u64 / 2)))
                .collect();
            let sets: Vec<fst::Set<&[u8]>> = parts.iter().map(|b| fst::Set::new(&b[..]).unwrap()).collect();
            let maps: Vec<fst::Map<&[u8]>> = parts.iter().map(|b| fst::Map::new(&b[..]).unwrap()).collect();
            for &level in &["set", "map"] {
                for op in &["union", "intersection", "difference", "symmetric_difference"] {
                    let snap = alloc::begin();
                    let mut items = 0usize;
                    {
                        macro_rules! drain {
                            ($s:expr) => {{
                                let mut s = $s;
                                while let Some(_) = s.next() {
                                    items += 1;
                                }
                            }};
                        }
                        if level == "set" {
                            let mut b = sets[0].op();
                            for f in &sets[1..] {
                                b = b.add(f);
                            }
                            match *op {
                                "union" => drain!(b.union()),
                                "intersection" => drain!(b.intersection()),
                                "difference" => drain!(b.difference()),
                                _ => drain!(b.symmetric_difference()),
                            }
                        } else {
                            let mut b = maps[0].op();
                            for f in &maps[1..] {
                                b = b.add(f);
                            }
                            match *op {
                                "union" => drain!(b.union()),
                                "intersection" => drain!(b.intersection()),
                                "difference" => drain!(b.difference()),
                                _ => drain!(b.symmetric_difference()),
                            }
                        }
                    }
                    let (_, peak, allocs) = alloc::read(&snap);
                    log.ev(json!({"ev": "Mem", "what": "op", "scenario": format!("{}-{}-k{}{}", level, op, k, if shared { "-shared" } else { "" }), "n": n, "k": k, "maxKeyLen": KEYLEN,
                                  "peak": jn(peak), "allocs": jn(allocs), "items": items}));
                }
            }
        }
        // a sparse stream (two keys: below and above everything) against dense ones, in first and
        // in last position: long runs of the dense streams' keys pass while one sparse key waits
        {
            let sparse = {
                let mut b = Builder::memory();
                b.insert(b"!", 1).unwrap();
                b.insert(b"~~~~", 2).unwrap();
                b.into_inner().unwrap()
            };
            let dense: Vec<Vec<u8>> = (0..2).map(|j| build_map(n / 2, seed + 300 + j as u64, std::cmp::max(1, (16_000_000 / (n / 2)) as u64 / 2))).collect();
            for &first in &[true, false] {
                let mut bytes: Vec<&Vec<u8>> = dense.iter().collect();
                if first {
                    bytes.insert(0, &sparse);
                } else {
                    bytes.push(&sparse);
                }
                let fsts: Vec<Fst<&[u8]>> = bytes.iter().map(|b| Fst::new(&b[..]).unwrap()).collect();
                for op in &["union", "intersection", "difference", "symmetric_difference"] {
                    let snap = alloc::begin();
                    let mut items = 0usize;
                    {
                        let mut b = fst::raw::OpBuilder::new();
                        for f in &fsts {
                            b.push(f);
                        }
                        macro_rules! drain {
                            ($s:expr) => {{
                                let mut s = $s;
                                while let Some(_) = s.next() {
                                    items += 1;
                                }
                            }};
                        }
                        match *op {
                            "union" => drain!(b.union()),
                            "intersection" => drain!(b.intersection()),
                            "difference" => drain!(b.difference()),
                            _ => drain!(b.symmetric_difference()),
                        }
                    }
                    let (_, peak, allocs) = alloc::read(&snap);
                    log.ev(json!({"ev": "Mem", "what": "op", "scenario": format!("{}-sparse-{}", op, if first { "first" } else { "last" }), "n": n, "k": 3, "maxKeyLen": KEYLEN,
                                  "peak": jn(peak), "allocs": jn(allocs), "items": items}));
                }
            }
        }
    }
}
