//! C19: the real `fst set` / `fst map` binaries in unsorted mode (built from /repo with hook
//! H4), over inputs x batch sizes x fd limits x thread counts x delay seeds.  The recorder adds
//! the content of every intermediate and final file; TLC judges (Trace_Merge.tla).

use crate::common::*;
use rand::rngs::StdRng;
use rand::Rng;
use serde_json::{json, Value};
use std::path::Path;
use std::process::Command;

fn read_fst(path: &Path) -> Option<Vec<Kv>> {
    let bytes = std::fs::read(path).ok()?;
    // (a file the tool left behind may be anything: reading it must not take the recorder down)
    guard(|| {
        let f = fst::raw::Fst::new(bytes).ok()?;
        Some(f.stream().into_byte_vec())
    })
    .ok()
    .flatten()
}

/// A file name with the leading zeros of every number in it removed ("batch007" -> "batch7").
fn canon_name(name: &str) -> String {
    let mut out = String::new();
    let cs: Vec<char> = name.chars().collect();
    let mut i = 0;
    while i < cs.len() {
        if cs[i].is_ascii_digit() {
            let mut j = i;
            while j < cs.len() && cs[j].is_ascii_digit() {
                j += 1;
            }
            let digits: String = cs[i..j].iter().collect();
            let t = digits.trim_start_matches('0');
            out.push_str(if t.is_empty() { "0" } else { t });
            i = j;
        } else {
            out.push(cs[i]);
            i += 1;
        }
    }
    out
}

fn gen_rows(r: &mut StdRng, n: usize, nkeys: usize, dupfree: bool, allow_empty: bool) -> Vec<(String, u64)> {
    let mut pool: Vec<String> = vec![];
    // (a blank inside, in front of or behind a key is part of the key)
    let alpha = ['a', 'b', 'c', 'x', 'é', ' '];
    while pool.len() < nkeys {
        let len = r.gen_range(if allow_empty { 0 } else { 1 }, 4);
        let k: String = (0..len).map(|_| alpha[r.gen_range(0, alpha.len())]).collect();
        if !pool.contains(&k) {
            pool.push(k);
        }
    }
    let mut rows = vec![];
    if dupfree {
        for k in pool.iter().take(n) {
            rows.push((k.clone(), r.gen_range(0, 50)));
        }
        // unsorted order
        for i in (1..rows.len()).rev() {
            let j = r.gen_range(0, i + 1);
            rows.swap(i, j);
        }
    } else {
        for _ in 0..n {
            let k = pool[r.gen_range(0, pool.len())].clone();
            // small values so that equal rows (same key and value) occur too
            rows.push((k, *pick(r, &[0u64, 1, 1, 2, 3, 7, 1 << 33])));
        }
    }
    rows
}

pub fn c19(log: &mut Log, seed: u64, tier: &str, fst_bin: &str, work: &str) {
    let thorough = tier == "thorough";
    let mut r = rng(seed, 19);
    let work = Path::new(work);
    let _ = std::fs::remove_dir_all(work);
    std::fs::create_dir_all(work.join("tmp")).unwrap();
    let nconf = if thorough { 120 } else { 28 };
    let nseeds = if thorough { 12 } else { 4 };
    let mut hangs = 0;
    'confs: for conf in 0..nconf {
        let is_set = conf % 4 == 3;
        let dupfree = conf % 3 == 0;
        let n = *pick(&mut r, &[0usize, 1, 2, 3, 5, 8, 12, 20]);
        let nkeys = if dupfree { std::cmp::max(n, 1) } else { *pick(&mut r, &[1usize, 2, 3, 6]) };
        let mut rows = gen_rows(&mut r, n, nkeys, dupfree, conf % 5 == 0 || (is_set && conf % 8 == 3));
        // one configuration (two in the thorough tier) with more than a thousand rows, run with one
        // row per batch: more than a thousand batches in the first round, hundreds in the next
        let many = conf == 12 || (thorough && conf == 24);
        if many {
            rows = (0..1030u64).map(|i| (format!("k{:04}", (i * 677) % 1030), i % 50)).collect();
        }
        // (a file listed twice next to itself only shows in sums: those configurations sum)
        let mode = if is_set { "set" } else if !dupfree && conf % 4 == 1 { let _ = *pick(&mut r, &["sum", "max", "min"]); "sum" } else { *pick(&mut r, &["sum", "max", "min"]) };
        // input split over 1..3 files
        // (every third configuration cuts at random positions, so files may be empty - first,
        // in the middle or last)
        let uneven = conf % 3 == 1;
        let nfiles = if uneven { r.gen_range(3, 5) } else { std::cmp::max(1, std::cmp::min(r.gen_range(1, 4), std::cmp::max(1, rows.len()))) };
        let mut cuts: Vec<usize> = (0..=nfiles).map(|fi| rows.len() * fi / nfiles).collect();
        if uneven {
            for c in cuts.iter_mut().take(nfiles).skip(1) {
                *c = r.gen_range(0, rows.len() + 1);
            }
            cuts.sort();
            if (conf % 2 == 0 || is_set) && nfiles >= 3 {
                // certainly an empty file with rows after it
                cuts[1] = std::cmp::min(cuts[1], rows.len().saturating_sub(1));
                cuts[2] = cuts[1];
                cuts.sort();
            }
        }
        let mut inputs = vec![];
        for fi in 0..nfiles {
            let p = work.join(format!("in{}.txt", fi));
            let lo = cuts[fi];
            let hi = cuts[fi + 1];
            let mut s = String::new();
            for (k, v) in &rows[lo..hi] {
                if is_set {
                    s.push_str(&format!("{}\n", k));
                } else {
                    s.push_str(&format!("{},{}\n", k, v));
                }
            }
            std::fs::write(&p, s).unwrap();
            inputs.push(p);
        }
        // every other configuration with repeated keys lists one of its input files again (next to
        // itself, or at the end, or three times): the input is what the listed files contain, in order
        let mut rows = rows;
        if !dupfree && conf % 2 == 1 {
            let i = r.gen_range(0, nfiles);
            let mut listing: Vec<usize> = (0..nfiles).collect();
            if conf % 4 == 1 {
                listing.insert(i + 1, i);
            } else {
                listing.push(i);
            }
            if conf % 8 == 5 {
                listing.insert(i + 1, i);
            }
            inputs = listing.iter().map(|&fi| work.join(format!("in{}.txt", fi))).collect();
            let orig = rows.clone();
            rows = listing.iter().flat_map(|&fi| orig[cuts[fi]..cuts[fi + 1]].to_vec()).collect();
        }
        // the reference: a sorted build through the same CLI (only meaningful without repeated keys)
        let mut sorted_bytes: Option<Vec<u8>> = None;
        if dupfree {
            let mut srows = rows.clone();
            srows.sort();
            let p = work.join("sorted.txt");
            let mut s = String::new();
            for (k, v) in &srows {
                if is_set {
                    s.push_str(&format!("{}\n", k));
                } else {
                    s.push_str(&format!("{},{}\n", k, v));
                }
            }
            std::fs::write(&p, s).unwrap();
            let out = work.join("sorted.fst");
            let _ = std::fs::remove_file(&out);
            if is_set && srows.iter().any(|(k, _)| k.is_empty()) {
                // `fst set --sorted` reads a blank line as the end of its input, so for data with the
                // empty key the sorted build of the same data is made with the library's builder
                let mut b = fst::SetBuilder::memory();
                for (k, _) in &srows {
                    b.insert(k).unwrap();
                }
                sorted_bytes = b.into_inner().ok();
            } else {
                let st = Command::new(fst_bin).arg(if is_set { "set" } else { "map" }).arg(&p).arg(&out).arg("--sorted").output().unwrap();
                if st.status.success() {
                    sorted_bytes = std::fs::read(&out).ok();
                }
            }
        }
        for sd in 0..nseeds {
            let mut bs = *pick(&mut r, &[1usize, 1, 2, 3, 4, 7, 100]);
            let mut fd = *pick(&mut r, &[2usize, 2, 3, 4, 9]);
            if many {
                if sd > 0 {
                    break;
                }
                bs = 1;
                fd = 9;
            }
            let threads = *pick(&mut r, &[1usize, 2, 3, 4, 8, 16]);
            let dseed = seed * 1000 + (conf * 100 + sd) as u64;
            let tmp = work.join("tmp");
            let _ = std::fs::remove_dir_all(&tmp);
            std::fs::create_dir_all(&tmp).unwrap();
            let tr = work.join("hook.ndjson");
            let _ = std::fs::remove_file(&tr);
            let out = work.join("out.fst");
            let _ = std::fs::remove_file(&out);
            // every other run overwrites (--force) a longer file that is already at the output path
            let overwrite = sd % 2 == 1;
            if overwrite {
                std::fs::write(&out, vec![0xABu8; 6000]).unwrap();
            }
            let mut cmd = Command::new(fst_bin);
            cmd.arg(if is_set { "set" } else { "map" });
            for p in &inputs {
                cmd.arg(p);
            }
            cmd.arg(&out).arg("--batch-size").arg(bs.to_string()).arg("--fd-limit").arg(fd.to_string()).arg("--threads").arg(threads.to_string()).arg("--keep-tmp-dir");
            if overwrite {
                cmd.arg("--force");
            }
            if mode == "max" {
                cmd.arg("--max");
            } else if mode == "min" {
                cmd.arg("--min");
            }
            cmd.env("TMPDIR", &tmp).env("FST_VERIF_TRACE", &tr).env("FST_VERIF_SEED", dseed.to_string());
            // (a run that never ends is an outcome: the limit is far above the milliseconds a run takes)
            let (res, timed_out) = output_within(&mut cmd, 30);
            let model_rows: Vec<Value> = rows.iter().map(|(k, v)| json!([jb(k.as_bytes()), ju(if is_set { 0 } else { *v })])).collect();
            log.ev(json!({"ev": "Run", "kind": if is_set { "set" } else { "map" }, "mode": mode, "bs": bs, "fd": fd, "threads": threads,
                          "seed": jn(dseed as usize % (1 << 30)), "rows": model_rows, "dupfree": dupfree, "files": inputs.len(), "input": conf}));
            // the hook's events, augmented with each file's content
            let tmpdir = std::fs::read_dir(&tmp).ok().and_then(|mut d| d.next()).and_then(|e| e.ok()).map(|e| e.path());
            let mut evs: Vec<Value> = std::fs::read_to_string(&tr).unwrap_or_default().lines().filter_map(|l| serde_json::from_str(l).ok()).collect();
            evs.sort_by_key(|e| e["seq"].as_u64().unwrap_or(0));
            // temporary files are identified up to the spelling of the numbers in their names (the hook
            // labels a batch "batch7"; a build that pads its file names writes "batch007"): names are
            // compared with leading zeros of every number removed
            let real: std::collections::HashMap<String, std::path::PathBuf> = tmpdir
                .as_ref()
                .and_then(|d| std::fs::read_dir(d).ok())
                .map(|rd| rd.filter_map(|e| e.ok()).map(|e| (canon_name(&e.file_name().to_string_lossy()), e.path())).collect())
                .unwrap_or_default();
            for mut e in evs {
                let name = canon_name(e["output"].as_str().unwrap_or(""));
                e["output"] = json!(name);
                if let Some(ins) = e["inputs"].as_array() {
                    let c: Vec<Value> = ins.iter().map(|x| json!(canon_name(x.as_str().unwrap_or("")))).collect();
                    e["inputs"] = Value::Array(c);
                }
                let content = real.get(&name).and_then(|p| read_fst(p));
                match content {
                    Some(c) => {
                        e["content"] = jitems(&c);
                        e["readable"] = json!(true);
                        log.ev(e);
                    }
                    None => {
                        // (kept temp files are a courtesy of --keep-tmp-dir, not part of the property)
                        e["content"] = json!([]);
                        e["readable"] = json!(false);
                        log.ev(e);
                    }
                }
            }
            let exit = if timed_out { -2 } else { res.status.code().unwrap_or(-1) };
            if timed_out {
                hangs += 1;
            }
            let fin = read_fst(&out);
            let bytes = std::fs::read(&out).unwrap_or_default();
            let verify = fst::raw::Fst::new(bytes.clone()).ok().map(|f| f.verify().is_ok()).unwrap_or(false);
            let same = match (&sorted_bytes, dupfree) {
                (Some(sb), true) => {
                    if *sb == bytes {
                        "yes"
                    } else {
                        "no"
                    }
                }
                _ => "na",
            };
            let digest = {
                let mut h: u64 = 14695981039346656037;
                for &b in &bytes {
                    h = (h ^ b as u64).wrapping_mul(1099511628211);
                }
                format!("{:016x}-{}", h, bytes.len())
            };
            match fin {
                Some(c) => log.ev(json!({"ev": "Final", "exit": exit, "content": jitems(&c), "len": c.len(), "verify": if verify { "ok" } else { "failed" }, "same_as_sorted": same, "digest": digest,
                                         "stderr": String::from_utf8_lossy(&res.stderr).chars().take(200).collect::<String>()})),
                None => log.ev(json!({"ev": "Final", "exit": exit, "content": [], "len": -1, "verify": "unreadable", "same_as_sorted": same, "digest": digest,
                                      "stderr": String::from_utf8_lossy(&res.stderr).chars().take(300).collect::<String>()})),
            }
            if hangs >= 3 {
                break 'confs; // established; every further hang would cost the full time limit
            }
        }
    }
    let _ = std::fs::remove_dir_all(work);
}
