//! fstv - drives the real `fst` crate and records what it did (or replays what TLC
//! generated).  It never decides a property: traces are validated by TLC against the
//! TLA+ specification in /verif/spec.

mod alloc;
mod api;
mod common;
mod gen;
mod ops;
mod replay;
mod scen_api;
mod scen_aut;
mod scen_build;
mod scen_cli;
mod scen_file;
mod scen_graph;
mod scen_lev;
mod scen_mem;
mod scen_merge;
mod scen_sink;
mod scen_step;
mod taut;

use common::*;

#[global_allocator]
static GLOBAL: alloc::Counting = alloc::Counting;
use serde_json::json;

fn main() {
    let argv: Vec<String> = std::env::args().skip(1).collect();
    let args = Args::parse(&argv);
    if args.pos.is_empty() {
        eprintln!("usage: fstv record <scenario> --seed N --tier quick|thorough --out FILE");
        std::process::exit(2);
    }
    quiet_panics();
    match args.pos[0].as_str() {
        "record" => record(&args),
        "digest" => {
            scen_build::digest_child(args.pos[1].parse().unwrap(), &args.pos[2], args.num("seed", 1), &args.get("tier", "quick"));
        }
        "replay-calls" => {
            let mut s = api::Sess::new(&args.get("out", "trace.ndjson"));
            replay::calls(&mut s, &args.pos[1], args.num("seed", 1));
            let panics = s.panics;
            let (n, counts) = s.log.finish();
            println!("{}", json!({"scenario": "replay-calls", "events": n, "counts": counts, "panics": panics}));
        }
        "replay-files" => {
            let mut s = api::Sess::new(&args.get("out", "trace.ndjson"));
            replay::files(&mut s, &args.pos[1], args.num("seed", 1));
            let panics = s.panics;
            let (n, counts) = s.log.finish();
            println!("{}", json!({"scenario": "replay-files", "events": n, "counts": counts, "panics": panics}));
        }
        other => {
            eprintln!("unknown command {}", other);
            std::process::exit(2);
        }
    }
}

fn record(args: &Args) {
    let scen = args.pos.get(1).cloned().unwrap_or_default();
    let seed = args.num("seed", 1);
    let tier = args.get("tier", "quick");
    let out = args.get("out", "trace.ndjson");
    match scen.as_str() {
        "c01" | "c02" | "c03" | "c04" | "c04eof" | "c05" | "c06" | "c16" => {
            let mut s = api::Sess::new(&out);
            match scen.as_str() {
                "c01" => scen_api::c01(&mut s, seed, &tier),
                "c02" => scen_api::c02(&mut s, seed, &tier),
                "c03" => scen_api::c03(&mut s, seed, &tier),
                "c04" => scen_api::c04(&mut s, seed, &tier),
                "c04eof" => scen_api::c04_eof(&mut s, seed, &tier),
                "c05" => scen_api::c05(&mut s, seed, &tier),
                "c06" => scen_api::c06(&mut s, seed, &tier),
                _ => scen_api::c16(&mut s, seed, &tier),
            }
            let panics = s.panics;
            let (n, counts) = s.log.finish();
            println!("{}", json!({"scenario": scen, "events": n, "counts": counts, "panics": panics}));
        }
        "c13" | "c14" => {
            let mut log = Log::create(&out);
            if scen == "c13" {
                scen_mem::c13(&mut log, seed, &tier)
            } else {
                scen_mem::c14(&mut log, seed, &tier)
            }
            let (n, counts) = log.finish();
            println!("{}", json!({"scenario": scen, "events": n, "counts": counts, "panics": 0}));
        }
        "cli" => {
            let mut log = Log::create(&out);
            scen_cli::cli(&mut log, seed, &tier, &args.get("fst-bin", "fst"), &args.get("work", "/verif/work/C19/cli"));
            let (n, counts) = log.finish();
            println!("{}", json!({"scenario": scen, "events": n, "counts": counts, "panics": 0}));
        }
        "graph" => {
            let mut log = Log::create(&out);
            let files = args.get("files", "");
            if files.is_empty() {
                scen_graph::graph(&mut log, seed, &tier, &args.get("fst-bin", "fst"), &args.get("work", "/verif/work/C19/graph"));
            } else {
                scen_graph::graph_files(&mut log, &files, seed, &tier, &args.get("fst-bin", "fst"), &args.get("work", "/verif/work/C10/graph"));
            }
            let (n, counts) = log.finish();
            println!("{}", json!({"scenario": scen, "events": n, "counts": counts, "panics": 0}));
        }
        "c19" => {
            let mut log = Log::create(&out);
            scen_merge::c19(&mut log, seed, &tier, &args.get("fst-bin", "fst"), &args.get("work", "/verif/work/C19/run"));
            let (n, counts) = log.finish();
            let panics = counts.get("Panic").cloned().unwrap_or(0);
            println!("{}", json!({"scenario": scen, "events": n, "counts": counts, "panics": panics}));
        }
        "c18" => {
            let mut log = Log::create(&out);
            scen_aut::c18(&mut log, seed, &tier);
            let (n, counts) = log.finish();
            let panics = counts.get("Panic").cloned().unwrap_or(0);
            println!("{}", json!({"scenario": scen, "events": n, "counts": counts, "panics": panics}));
        }
        "c17" => {
            let mut log = Log::create(&out);
            scen_lev::c17(&mut log, seed, &tier);
            let (n, counts) = log.finish();
            let panics = counts.get("Panic").cloned().unwrap_or(0);
            println!("{}", json!({"scenario": scen, "events": n, "counts": counts, "panics": panics}));
        }
        "stepmap" | "stepset" => {
            let mut log = Log::create(&out);
            scen_step::step(&mut log, seed, &tier, scen == "stepset");
            let (n, counts) = log.finish();
            let panics = counts.get("Panic").cloned().unwrap_or(0);
            println!("{}", json!({"scenario": scen, "events": n, "counts": counts, "panics": panics}));
        }
        "c12" | "c15" => {
            let mut log = Log::create(&out);
            if scen == "c12" {
                scen_build::c12(&mut log, seed, &tier)
            } else {
                scen_build::c15(&mut log, seed, &tier)
            }
            let (n, counts) = log.finish();
            println!("{}", json!({"scenario": scen, "events": n, "counts": counts, "panics": 0}));
        }
        "c07" | "c11" => {
            let mut log = Log::create(&out);
            if scen == "c07" {
                scen_sink::c07(&mut log, seed, &tier)
            } else {
                scen_sink::c11(&mut log, seed, &tier)
            }
            let (n, counts) = log.finish();
            let panics = counts.get("Panic").cloned().unwrap_or(0);
            println!("{}", json!({"scenario": scen, "events": n, "counts": counts, "panics": panics}));
        }
        "c08" | "c09" | "c20" | "c10raw" | "c10view" => {
            let mut log = Log::create(&out);
            match scen.as_str() {
                "c08" => scen_file::c08(&mut log, seed, &tier),
                "c09" => scen_file::c09(&mut log, seed, &tier),
                "c20" => scen_file::c20(&mut log, seed, &tier),
                "c10view" => scen_file::c10_view(&mut log, &args.get("files", ""), seed, &tier),
                _ => scen_file::c10_raw(&mut log, seed, &tier),
            }
            let (n, counts) = log.finish();
            let panics = counts.get("Panic").cloned().unwrap_or(0);
            println!("{}", json!({"scenario": scen, "events": n, "counts": counts, "panics": panics}));
        }
        other => {
            eprintln!("unknown scenario {}", other);
            std::process::exit(2);
        }
    }
}
