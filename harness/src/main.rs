fn main() { println!("hello"); }
