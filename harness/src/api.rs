//! A recording session over the public API: every call on the real crate is logged as one
//! event at its return, with its arguments, its result and an (untrusted) model hint that
//! lets TLC check the event in O(1).  Nothing here decides anything.

use crate::common::*;
use crate::taut::TableAut;
use fst::raw::{Builder, Fst, Output};
use fst::{IntoStreamer, Map, MapBuilder, Set, SetBuilder, Streamer};
use serde_json::{json, Value};

#[derive(Clone, Copy, Debug, PartialEq)]
pub enum Front {
    RawInsert,
    RawAdd,
    MapInsert,
    SetInsert,
    RawExtendIter,
    MapExtendIter,
    SetExtendIter,
    RawExtendStream,
    MapExtendStream,
    SetExtendStream,
    MapFromIter,
    SetFromIter,
    RawFromIterMap,
    RawFromIterSet,
}

pub const MAP_FRONTS: &[Front] = &[
    Front::RawInsert,
    Front::MapInsert,
    Front::RawExtendIter,
    Front::MapExtendIter,
    Front::RawExtendStream,
    Front::MapExtendStream,
    Front::MapFromIter,
    Front::RawFromIterMap,
];
pub const SET_FRONTS: &[Front] = &[
    Front::RawAdd,
    Front::SetInsert,
    Front::SetExtendIter,
    Front::SetExtendStream,
    Front::SetFromIter,
    Front::RawFromIterSet,
];

impl Front {
    pub fn is_set(self) -> bool {
        SET_FRONTS.contains(&self)
    }
    pub fn call(self) -> &'static str {
        if self.is_set() {
            "add"
        } else {
            "insert"
        }
    }
    pub fn name(self) -> String {
        format!("{:?}", self)
    }
}

/// A user streamer over a vector (a "plain user stream").
pub struct VecStream {
    pub items: Vec<Kv>,
    pub i: usize,
}
impl<'a> Streamer<'a> for VecStream {
    type Item = (&'a [u8], Output);
    fn next(&'a mut self) -> Option<(&'a [u8], Output)> {
        if self.i < self.items.len() {
            self.i += 1;
            let it = &self.items[self.i - 1];
            Some((&it.0, Output::new(it.1)))
        } else {
            None
        }
    }
}
pub struct VecStreamMap {
    pub items: Vec<Kv>,
    pub i: usize,
}
impl<'a> Streamer<'a> for VecStreamMap {
    type Item = (&'a [u8], u64);
    fn next(&'a mut self) -> Option<(&'a [u8], u64)> {
        if self.i < self.items.len() {
            self.i += 1;
            let it = &self.items[self.i - 1];
            Some((&it.0, it.1))
        } else {
            None
        }
    }
}
pub struct VecStreamSet {
    pub items: Vec<Kv>,
    pub i: usize,
}
impl<'a> Streamer<'a> for VecStreamSet {
    type Item = &'a [u8];
    fn next(&'a mut self) -> Option<&'a [u8]> {
        if self.i < self.items.len() {
            self.i += 1;
            Some(&self.items[self.i - 1].0)
        } else {
            None
        }
    }
}

pub struct Sess {
    pub log: Log,
    pub models: Vec<Vec<Kv>>,
    pub fsts: Vec<(Vec<u8>, usize)>,
    pub nb: usize,
    pub ns: usize,
    pub no: usize,
    pub na: usize,
    pub auts: Vec<TableAut>,
    pub panics: usize,
}

/// The content a call history should produce according to the documented contract; it is
/// only a *claim* the recorder announces up front - TLC re-derives every step from FstAbs.
pub fn predicted(call: &str, items: &[Kv], stop_at_reject: bool) -> Vec<Kv> {
    let mut acc: Vec<Kv> = vec![];
    for (k, v) in items {
        let ok = match acc.last() {
            None => true,
            Some((l, _)) => k > l,
        };
        if ok {
            acc.push((k.clone(), if call == "add" { 0 } else { *v }));
        } else if stop_at_reject && !(call == "add" && Some(k) == acc.last().map(|x| &x.0)) {
            break;
        }
    }
    acc
}

impl Sess {
    pub fn new(path: &str) -> Sess {
        Sess {
            log: Log::create(path),
            models: vec![],
            fsts: vec![],
            nb: 0,
            ns: 0,
            no: 0,
            na: 0,
            auts: vec![],
            panics: 0,
        }
    }

    /// Forget all objects (ids restart; keeps TLC's state small).
    pub fn reset(&mut self) {
        self.log.ev(json!({"ev": "Reset"}));
        self.models.clear();
        self.fsts.clear();
        self.auts.clear();
        self.nb = 0;
        self.ns = 0;
        self.no = 0;
        self.na = 0;
    }

    pub fn panic_ev(&mut self, place: &str, msg: &str) {
        self.panics += 1;
        self.log.ev(json!({"ev": "Panic", "in": place, "msg": msg}));
    }

    pub fn model(&mut self, items: &[Kv]) -> usize {
        self.models.push(items.to_vec());
        let m = self.models.len();
        self.log.ev(json!({"ev": "Model", "m": m, "items": jitems(items)}));
        m
    }

    pub fn aut(&mut self, a: &TableAut) -> usize {
        self.auts.push(a.clone());
        self.na = self.auts.len();
        self.log.ev(a.to_json(self.na));
        self.na
    }

    /// Execute a call history through `front`; `calls` may contain rejected calls.  Returns the
    /// id of the produced FST (if the build finished).
    pub fn build(&mut self, front: Front, calls: &[Kv], geometry: Option<(usize, usize)>) -> Option<usize> {
        let call = front.call();
        let batch = !matches!(front, Front::RawInsert | Front::RawAdd | Front::MapInsert | Front::SetInsert);
        let want = predicted(call, calls, batch);
        let m = self.model(&want);
        self.build_with_model(front, calls, m, geometry)
    }

    pub fn build_with_model(
        &mut self,
        front: Front,
        calls: &[Kv],
        m: usize,
        geometry: Option<(usize, usize)>,
    ) -> Option<usize> {
        let call = front.call();
        let zeroed: Vec<Kv>;
        let calls: &[Kv] = if front.is_set() {
            zeroed = calls.iter().map(|(k, _)| (k.clone(), 0)).collect();
            &zeroed
        } else {
            calls
        };
        self.nb += 1;
        let b = self.nb;
        let geo = match geometry {
            Some((r, c)) => json!([r, c]),
            None => json!([]),
        };
        self.log.ev(json!({"ev": "BNew", "b": b, "m": m, "front": front.name(), "geo": geo}));
        fst::raw::verif::set_geometry(geometry);
        let bytes: Option<Vec<u8>> = match front {
            Front::RawInsert | Front::RawAdd => {
                let mut bld = Builder::memory();
                for (k, v) in calls {
                    let r = guard(|| if front == Front::RawInsert { bld.insert(k, *v) } else { bld.add(k) });
                    match r {
                        Ok(r) => self.log.ev(json!({"ev": "BCall", "b": b, "call": call, "k": jb(k), "v": ju(*v), "res": jres(&r)})),
                        Err(p) => {
                            self.panic_ev("BCall", &p);
                            return None;
                        }
                    }
                }
                let alt = b % 2 == 1;
                self.finish_ev(b, guard(|| {
                    assert_eq!(bld.get_ref().len() as u64, bld.bytes_written(), "get_ref() and bytes_written() disagree");
                    if alt { Ok(bld.into_fst().into_inner()) } else { bld.into_inner() }
                }))
            }
            Front::MapInsert => {
                let mut bld = MapBuilder::memory();
                for (k, v) in calls {
                    match guard(|| bld.insert(k, *v)) {
                        Ok(r) => self.log.ev(json!({"ev": "BCall", "b": b, "call": call, "k": jb(k), "v": ju(*v), "res": jres(&r)})),
                        Err(p) => {
                            self.panic_ev("BCall", &p);
                            return None;
                        }
                    }
                }
                let alt = b % 2 == 1;
                self.finish_ev(b, guard(|| {
                    assert_eq!(bld.get_ref().len() as u64, bld.bytes_written(), "get_ref() and bytes_written() disagree");
                    if alt { Ok(bld.into_map().into_fst().into_inner()) } else { bld.into_inner() }
                }))
            }
            Front::SetInsert => {
                let mut bld = SetBuilder::memory();
                for (k, v) in calls {
                    match guard(|| bld.insert(k)) {
                        Ok(r) => self.log.ev(json!({"ev": "BCall", "b": b, "call": call, "k": jb(k), "v": ju(*v), "res": jres(&r)})),
                        Err(p) => {
                            self.panic_ev("BCall", &p);
                            return None;
                        }
                    }
                }
                let alt = b % 2 == 1;
                self.finish_ev(b, guard(|| {
                    assert_eq!(bld.get_ref().len() as u64, bld.bytes_written(), "get_ref() and bytes_written() disagree");
                    if alt { Ok(bld.into_set().into_fst().into_inner()) } else { bld.into_inner() }
                }))
            }
            Front::RawExtendIter | Front::RawExtendStream => {
                let mut bld = Builder::memory();
                let r = guard(|| {
                    if front == Front::RawExtendIter {
                        bld.extend_iter(calls.iter().map(|(k, v)| (k.clone(), Output::new(*v))))
                    } else {
                        bld.extend_stream(VecStream { items: calls.to_vec(), i: 0 })
                    }
                });
                self.ext_ev(b, front, call, calls, r)?;
                self.finish_ev(b, guard(|| bld.into_inner()))
            }
            Front::MapExtendIter | Front::MapExtendStream => {
                let mut bld = MapBuilder::memory();
                let r = guard(|| {
                    if front == Front::MapExtendIter {
                        bld.extend_iter(calls.iter().map(|(k, v)| (k.clone(), *v)))
                    } else {
                        bld.extend_stream(VecStreamMap { items: calls.to_vec(), i: 0 })
                    }
                });
                self.ext_ev(b, front, call, calls, r)?;
                self.finish_ev(b, guard(|| bld.into_inner()))
            }
            Front::SetExtendIter | Front::SetExtendStream => {
                let mut bld = SetBuilder::memory();
                let r = guard(|| {
                    if front == Front::SetExtendIter {
                        bld.extend_iter(calls.iter().map(|(k, _)| k.clone()))
                    } else {
                        bld.extend_stream(VecStreamSet { items: calls.to_vec(), i: 0 })
                    }
                });
                self.ext_ev(b, front, call, calls, r)?;
                self.finish_ev(b, guard(|| bld.into_inner()))
            }
            Front::MapFromIter => {
                let r = guard(|| Map::from_iter(calls.iter().map(|(k, v)| (k.clone(), *v))));
                self.from_iter_ev(b, front, call, calls, r.map(|r| r.map(|m| m.as_fst().as_bytes().to_vec())))
            }
            Front::SetFromIter => {
                let r = guard(|| Set::from_iter(calls.iter().map(|(k, _)| k.clone())));
                self.from_iter_ev(b, front, call, calls, r.map(|r| r.map(|m| m.as_fst().as_bytes().to_vec())))
            }
            Front::RawFromIterMap => {
                let r = guard(|| Fst::from_iter_map(calls.iter().map(|(k, v)| (k.clone(), *v))));
                self.from_iter_ev(b, front, call, calls, r.map(|r| r.map(|m| m.as_bytes().to_vec())))
            }
            Front::RawFromIterSet => {
                let r = guard(|| Fst::from_iter_set(calls.iter().map(|(k, _)| k.clone())));
                self.from_iter_ev(b, front, call, calls, r.map(|r| r.map(|m| m.as_bytes().to_vec())))
            }
        };
        fst::raw::verif::set_geometry(None);
        let bytes = bytes?;
        self.fsts.push((bytes, m));
        let f = self.fsts.len();
        // BFinish was logged with this f
        Some(f)
    }

    fn ext_ev(&mut self, b: usize, front: Front, call: &str, calls: &[Kv], r: Result<Result<(), fst::Error>, String>) -> Option<()> {
        match r {
            Ok(r) => {
                self.log.ev(json!({"ev": "BExt", "b": b, "via": front.name(), "call": call, "items": jitems(calls), "res": jres(&r)}));
                Some(())
            }
            Err(p) => {
                self.panic_ev("BExt", &p);
                None
            }
        }
    }

    fn finish_ev(&mut self, b: usize, r: Result<Result<Vec<u8>, fst::Error>, String>) -> Option<Vec<u8>> {
        match r {
            Ok(Ok(bytes)) => {
                self.log.ev(json!({"ev": "BFinish", "b": b, "f": self.fsts.len() + 1, "res": jok(), "size": jn(bytes.len())}));
                Some(bytes)
            }
            Ok(Err(e)) => {
                self.log.ev(json!({"ev": "BFinish", "b": b, "f": 0, "res": jerr(&e)}));
                None
            }
            Err(p) => {
                self.panic_ev("BFinish", &p);
                None
            }
        }
    }

    fn from_iter_ev(
        &mut self,
        b: usize,
        front: Front,
        call: &str,
        calls: &[Kv],
        r: Result<Result<Vec<u8>, fst::Error>, String>,
    ) -> Option<Vec<u8>> {
        match r {
            Ok(Ok(bytes)) => {
                self.log.ev(json!({"ev": "BExt", "b": b, "via": front.name(), "call": call, "items": jitems(calls), "res": jok()}));
                self.log.ev(json!({"ev": "BFinish", "b": b, "f": self.fsts.len() + 1, "res": jok(), "size": jn(bytes.len())}));
                Some(bytes)
            }
            Ok(Err(e)) => {
                self.log.ev(json!({"ev": "BExt", "b": b, "via": front.name(), "call": call, "items": jitems(calls), "res": jerr(&e)}));
                None
            }
            Err(p) => {
                self.panic_ev("BExt", &p);
                None
            }
        }
    }

    /// One builder fed by a sequence of segments - single calls, `extend_iter` batches,
    /// `extend_stream` batches - that goes on after rejected calls and rejected batches (a batch
    /// stops at its first rejected item; the builder stays usable).  `kind`: "raw", "map" or "set".
    pub fn build_session(&mut self, kind: &str, segs: &[(u8, Vec<Kv>)]) -> Option<usize> {
        let set = kind == "set";
        let call = if set { "add" } else { "insert" };
        // the accepted items, by the contract
        let mut want: Vec<Kv> = vec![];
        for (how, items) in segs {
            for (k, v) in items {
                let ok = want.last().map(|(l, _)| k > l).unwrap_or(true);
                if ok {
                    want.push((k.clone(), if set { 0 } else { *v }));
                } else if *how != 0 && !(set && Some(k) == want.last().map(|x| &x.0)) {
                    break;
                }
            }
        }
        let m = self.model(&want);
        self.nb += 1;
        let b = self.nb;
        self.log.ev(json!({"ev": "BNew", "b": b, "m": m, "front": format!("session-{}", kind), "geo": []}));
        enum B {
            Raw(Builder<Vec<u8>>),
            Map(MapBuilder<Vec<u8>>),
            Set(SetBuilder<Vec<u8>>),
        }
        let mut bld = match kind {
            "raw" => B::Raw(Builder::memory()),
            "map" => B::Map(MapBuilder::memory()),
            _ => B::Set(SetBuilder::memory()),
        };
        for (how, items) in segs {
            let zeroed: Vec<Kv> = items.iter().map(|(k, v)| (k.clone(), if set { 0 } else { *v })).collect();
            let items = &zeroed;
            if *how == 0 {
                for (k, v) in items {
                    let r = guard(|| match &mut bld {
                        B::Raw(x) => x.insert(k, *v),
                        B::Map(x) => x.insert(k, *v),
                        B::Set(x) => x.insert(k),
                    });
                    match r {
                        Ok(r) => self.log.ev(json!({"ev": "BCall", "b": b, "call": call, "k": jb(k), "v": ju(*v), "res": jres(&r)})),
                        Err(p) => {
                            self.panic_ev("BCall", &p);
                            return None;
                        }
                    }
                }
            } else {
                let via = format!("session-{}-{}", kind, if *how == 1 { "extend_iter" } else { "extend_stream" });
                let r = guard(|| match (&mut bld, *how) {
                    (B::Raw(x), 1) => x.extend_iter(items.iter().map(|(k, v)| (k.clone(), Output::new(*v)))),
                    (B::Raw(x), _) => x.extend_stream(VecStream { items: items.to_vec(), i: 0 }),
                    (B::Map(x), 1) => x.extend_iter(items.iter().map(|(k, v)| (k.clone(), *v))),
                    (B::Map(x), _) => x.extend_stream(VecStreamMap { items: items.to_vec(), i: 0 }),
                    (B::Set(x), 1) => x.extend_iter(items.iter().map(|(k, _)| k.clone())),
                    (B::Set(x), _) => x.extend_stream(VecStreamSet { items: items.to_vec(), i: 0 }),
                });
                match r {
                    Ok(r) => self.log.ev(json!({"ev": "BExt", "b": b, "via": via, "call": call, "items": jitems(items), "res": jres(&r)})),
                    Err(p) => {
                        self.panic_ev("BExt", &p);
                        return None;
                    }
                }
            }
        }
        let bytes = self.finish_ev(b, guard(|| match bld {
            B::Raw(x) => x.into_inner(),
            B::Map(x) => x.into_inner(),
            B::Set(x) => x.into_inner(),
        }))?;
        self.fsts.push((bytes, m));
        Some(self.fsts.len())
    }

    /// Register bytes obtained elsewhere as an FST whose content is claimed to be model m.
    pub fn have(&mut self, bytes: Vec<u8>, m: usize, origin: &str) -> usize {
        self.fsts.push((bytes, m));
        let f = self.fsts.len();
        self.log.ev(json!({"ev": "Have", "f": f, "m": m, "origin": origin}));
        f
    }

    /// A map streamed by the real builder into a sink that accepts `cap` bytes per write (or a
    /// random prefix when `cap` is 0); the bytes the sink ends up with are then queried.
    pub fn build_through_sink(&mut self, items: &[Kv], cap: usize, seed: u64) -> Option<usize> {
        use crate::scen_sink::{build_through, Policy};
        let m = self.model(items);
        let policy = if cap == 0 { Policy::Random { short: 50, intr: 10 } } else { Policy::Cap(cap) };
        match build_through(items, false, policy.clone(), seed) {
            Ok(bytes) => {
                let f = self.have(bytes, m, &format!("MapBuilder streaming into a sink ({:?})", policy));
                self.open(f, "raw");
                Some(f)
            }
            Err(e) => {
                self.panic_ev("build-through-sink", &e);
                None
            }
        }
    }

    pub fn items_of(&self, f: usize) -> &Vec<Kv> {
        &self.models[self.fsts[f - 1].1 - 1]
    }

    pub fn open(&mut self, f: usize, via: &str) {
        let bytes = self.fsts[f - 1].0.clone();
        let r = guard(|| match via {
            "map" => Map::new(bytes).map(|m| (m.len(), m.is_empty())),
            "set" => Set::new(bytes).map(|m| (m.len(), m.is_empty())),
            "slice" => Fst::new(&bytes[..]).map(|m| (m.len(), m.is_empty())),
            "cow" => Fst::new(std::borrow::Cow::Borrowed(&bytes[..])).map(|m| (m.len(), m.is_empty())),
            "arc" => Fst::new(std::sync::Arc::<[u8]>::from(&bytes[..])).map(|m| (m.len(), m.is_empty())),
            "mmap" => {
                let mut mm = memmap2::MmapMut::map_anon(std::cmp::max(1, bytes.len())).unwrap();
                mm[..bytes.len()].copy_from_slice(&bytes);
                if bytes.is_empty() {
                    Fst::new(&bytes[..]).map(|m| (m.len(), m.is_empty()))
                } else {
                    let ro = mm.make_read_only().unwrap();
                    // an anonymous map is page-sized; view exactly the file's bytes
                    struct View(memmap2::Mmap, usize);
                    impl AsRef<[u8]> for View {
                        fn as_ref(&self) -> &[u8] {
                            &self.0[..self.1]
                        }
                    }
                    Fst::new(View(ro, bytes.len())).map(|m| (m.len(), m.is_empty()))
                }
            }
            "map_data" => Fst::new(bytes.clone()).and_then(|f| f.map_data(|v| std::sync::Arc::<[u8]>::from(v))).map(|m| (m.len(), m.is_empty())),
            _ => Fst::new(bytes).map(|m| (m.len(), m.is_empty())),
        });
        match r {
            Ok(Ok((len, empty))) => self.log.ev(json!({"ev": "Open", "f": f, "via": via, "res": jok(), "len": jn(len), "empty": empty})),
            Ok(Err(e)) => self.log.ev(json!({"ev": "Open", "f": f, "via": via, "res": jerr(&e), "len": 0, "empty": true})),
            Err(p) => self.panic_ev("Open", &p),
        }
    }

    /// verify() on an opened FST: versions 1-2 carry no checksum.
    pub fn verify_ev(&mut self, f: usize, version: u64) {
        let bytes = self.fsts[f - 1].0.clone();
        let r = guard(|| Fst::new(&bytes[..]).map(|f| f.verify()));
        match r {
            Ok(Ok(v)) => self.log.ev(json!({"ev": "Verify", "f": f, "version": version, "res": jres(&v)})),
            Ok(Err(_)) => {}
            Err(p) => self.panic_ev("Verify", &p),
        }
    }

    fn rank(items: &[Kv], k: &[u8]) -> usize {
        items.partition_point(|it| &it.0[..] < k)
    }

    pub fn get(&mut self, f: usize, k: &[u8], via: &str) {
        let rank = Self::rank(self.items_of(f), k);
        let bytes = &self.fsts[f - 1].0;
        let r = guard(|| match via {
            "map" => Map::new(&bytes[..]).unwrap().get(k),
            _ => Fst::new(&bytes[..]).unwrap().get(k).map(|o| o.value()),
        });
        match r {
            Ok(v) => {
                let res = match v {
                    Some(v) => json!([ju(v)]),
                    None => json!([]),
                };
                self.log.ev(json!({"ev": "Get", "f": f, "via": via, "k": jb(k), "rank": rank, "res": res}))
            }
            Err(p) => self.panic_ev("Get", &p),
        }
    }

    pub fn contains(&mut self, f: usize, k: &[u8], via: &str) {
        let rank = Self::rank(self.items_of(f), k);
        let bytes = &self.fsts[f - 1].0;
        let r = guard(|| match via {
            "map" => Map::new(&bytes[..]).unwrap().contains_key(k),
            "set" => Set::new(&bytes[..]).unwrap().contains(k),
            _ => Fst::new(&bytes[..]).unwrap().contains_key(k),
        });
        match r {
            Ok(v) => self.log.ev(json!({"ev": "Contains", "f": f, "via": via, "k": jb(k), "rank": rank, "res": v})),
            Err(p) => self.panic_ev("Contains", &p),
        }
    }

    pub fn inc_model(&mut self, m: usize) {
        self.log.ev(json!({"ev": "IncModel", "m": m}));
    }

    pub fn get_key(&mut self, f: usize, v: u64, prefix: &[u8]) {
        let rank = self.items_of(f).partition_point(|it| it.1 < v);
        let bytes = &self.fsts[f - 1].0;
        let r = guard(|| {
            let fst = Fst::new(&bytes[..]).unwrap();
            if prefix.is_empty() {
                match fst.get_key(v) {
                    Some(k) => (true, k),
                    None => (false, vec![]),
                }
            } else {
                let mut buf = prefix.to_vec();
                let found = fst.get_key_into(v, &mut buf);
                (found, buf)
            }
        });
        match r {
            Ok((found, buf)) => self.log.ev(json!({"ev": "GetKey", "f": f, "v": ju(v), "rank": rank, "prefix": jb(prefix), "found": found, "buf": jb(&buf)})),
            Err(p) => self.panic_ev("GetKey", &p),
        }
    }

    /// Open a stream on FST f through `via` ("raw", "map", "set", "map_keys", "map_values"),
    /// with a sequence of bound calls and an optional automaton; drain it and log every next().
    pub fn stream(&mut self, f: usize, via: &str, bounds: &[(String, Vec<u8>)], a: Option<usize>, with_state: bool, limit: usize) {
        let items = self.items_of(f).clone();
        // effective bounds (hint computation only)
        let mut lo: Option<(&str, &[u8])> = None;
        let mut hi: Option<(&str, &[u8])> = None;
        for (kind, k) in bounds {
            match kind.as_str() {
                "ge" | "gt" => lo = Some((kind, k)),
                _ => hi = Some((kind, k)),
            }
        }
        let from = match lo {
            None => 0,
            Some(("ge", k)) => items.partition_point(|it| &it.0[..] < k),
            Some((_, k)) => items.partition_point(|it| &it.0[..] <= k),
        };
        let to = match hi {
            None => items.len(),
            Some(("le", k)) => items.partition_point(|it| &it.0[..] <= k),
            Some((_, k)) => items.partition_point(|it| &it.0[..] < k),
        };
        self.ns += 1;
        let s = self.ns;
        let jbounds: Vec<Value> = bounds.iter().map(|(kd, k)| json!([kd, jb(k)])).collect();
        let ja = match a {
            Some(a) => json!([a]),
            None => json!([]),
        };
        self.log.ev(json!({"ev": "SNew", "s": s, "f": f, "via": via, "a": ja, "bounds": jbounds, "from": from, "to": to, "ws": with_state}));
        let bytes = self.fsts[f - 1].0.clone();
        let aut = a.map(|a| self.auts[a - 1].clone());
        let mut out: Vec<(Vec<u8>, u64, Option<usize>)> = vec![];
        let mut panicked: Option<String> = None;
        macro_rules! bounds_on {
            ($b:expr) => {{
                let mut b = $b;
                for (kind, k) in bounds.iter() {
                    b = match kind.as_str() {
                        "ge" => b.ge(k),
                        "gt" => b.gt(k),
                        "le" => b.le(k),
                        _ => b.lt(k),
                    };
                }
                b
            }};
        }
        macro_rules! drain {
            ($st:expr, $conv:expr) => {{
                let mut st = $st;
                loop {
                    if out.len() > limit {
                        break;
                    }
                    match guard(|| st.next().map($conv)) {
                        Ok(Some(x)) => out.push(x),
                        Ok(None) => {
                            out.push((vec![], 0, Some(usize::MAX)));
                            // a finished stream stays finished
                            for _ in 0..2 {
                                match guard(|| st.next().map($conv)) {
                                    Ok(Some(x)) => out.push(x),
                                    Ok(None) => out.push((vec![], 0, Some(usize::MAX))),
                                    Err(p) => {
                                        panicked = Some(p);
                                        break;
                                    }
                                }
                            }
                            break;
                        }
                        Err(p) => {
                            panicked = Some(p);
                            break;
                        }
                    }
                }
            }};
        }
        let r = guard(|| {
            match (via, &aut, with_state) {
                ("raw", None, _) => {
                    let fst = Fst::new(&bytes[..]).unwrap();
                    drain!(bounds_on!(fst.range()).into_stream(), |(k, v): (&[u8], Output)| (k.to_vec(), v.value(), None))
                }
                ("raw", Some(au), false) => {
                    let fst = Fst::new(&bytes[..]).unwrap();
                    drain!(bounds_on!(fst.search(au)).into_stream(), |(k, v): (&[u8], Output)| (k.to_vec(), v.value(), None))
                }
                ("raw", Some(au), true) => {
                    let fst = Fst::new(&bytes[..]).unwrap();
                    drain!(bounds_on!(fst.search_with_state(au)).into_stream(), |(k, v, s): (&[u8], Output, usize)| (k.to_vec(), v.value(), Some(s)))
                }
                ("map", None, _) => {
                    let m = Map::new(&bytes[..]).unwrap();
                    drain!(bounds_on!(m.range()).into_stream(), |(k, v): (&[u8], u64)| (k.to_vec(), v, None))
                }
                ("map", Some(au), false) => {
                    let m = Map::new(&bytes[..]).unwrap();
                    drain!(bounds_on!(m.search(au)).into_stream(), |(k, v): (&[u8], u64)| (k.to_vec(), v, None))
                }
                ("map", Some(au), true) => {
                    let m = Map::new(&bytes[..]).unwrap();
                    drain!(bounds_on!(m.search_with_state(au)).into_stream(), |(k, v, s): (&[u8], u64, usize)| (k.to_vec(), v, Some(s)))
                }
                ("set", None, _) => {
                    let m = Set::new(&bytes[..]).unwrap();
                    drain!(bounds_on!(m.range()).into_stream(), |k: &[u8]| (k.to_vec(), 0, None))
                }
                ("set", Some(au), false) => {
                    let m = Set::new(&bytes[..]).unwrap();
                    drain!(bounds_on!(m.search(au)).into_stream(), |k: &[u8]| (k.to_vec(), 0, None))
                }
                ("set", Some(au), true) => {
                    let m = Set::new(&bytes[..]).unwrap();
                    drain!(bounds_on!(m.search_with_state(au)).into_stream(), |(k, s): (&[u8], usize)| (k.to_vec(), 0, Some(s)))
                }
                _ => unreachable!(),
            }
        });
        if let Err(p) = r {
            panicked = Some(p);
        }
        let is_set = via == "set";
        for (k, v, st) in out {
            if st == Some(usize::MAX) {
                self.log.ev(json!({"ev": "SNext", "s": s, "idx": 0, "res": []}));
                continue;
            }
            let idx = match items.binary_search_by(|it| it.0[..].cmp(&k[..])) {
                Ok(i) => (i + 1) as i64,
                Err(_) => -1,
            };
            // a set reports no value; the model holds 0 for sets
            let v = if is_set && idx > 0 { items[(idx - 1) as usize].1 } else { v };
            let item = match st {
                Some(st) => json!([jb(&k), ju(v), st]),
                None => json!([jb(&k), ju(v)]),
            };
            self.log.ev(json!({"ev": "SNext", "s": s, "idx": idx, "res": [item]}));
        }
        if let Some(p) = panicked {
            self.panic_ev("SNext", &p);
        }
    }

    /// Drain a full stream through the `into_*` conveniences and `keys()` / `values()`.
    pub fn stream_conveniences(&mut self, f: usize) {
        let items = self.items_of(f).clone();
        let bytes = self.fsts[f - 1].0.clone();
        let r = guard(|| {
            let m = Map::new(&bytes[..]).unwrap();
            let a = m.stream().into_byte_vec();
            let b = m.stream().into_byte_keys();
            let c = m.stream().into_values();
            let mut d = vec![];
            let mut ks = m.keys();
            while let Some(k) = ks.next() {
                d.push(k.to_vec());
            }
            let mut e = vec![];
            let mut vs = m.values();
            while let Some(v) = vs.next() {
                e.push(v);
            }
            let raw = Fst::new(&bytes[..]).unwrap();
            let g = raw.stream().into_byte_vec();
            let set = Set::new(&bytes[..]).unwrap();
            let h = set.stream().into_bytes();
            // the string forms: Ok exactly when every key is UTF-8
            let utf8 = a.iter().all(|(k, _)| std::str::from_utf8(k).is_ok());
            let sv = m.stream().into_str_vec();
            let sk = m.stream().into_str_keys();
            let rs = raw.stream().into_str_vec();
            let rk = raw.stream().into_str_keys();
            let ss = set.stream().into_strs();
            assert!(sv.is_ok() == utf8 && sk.is_ok() == utf8 && rs.is_ok() == utf8 && rk.is_ok() == utf8 && ss.is_ok() == utf8,
                    "into_str* is Ok iff every key is UTF-8");
            if utf8 {
                let sv: Vec<Kv> = sv.unwrap().into_iter().map(|(k, v)| (k.into_bytes(), v)).collect();
                let rs: Vec<Kv> = rs.unwrap().into_iter().map(|(k, v)| (k.into_bytes(), v)).collect();
                let sk: Vec<Vec<u8>> = sk.unwrap().into_iter().map(|k| k.into_bytes()).collect();
                let rk: Vec<Vec<u8>> = rk.unwrap().into_iter().map(|k| k.into_bytes()).collect();
                let ss: Vec<Vec<u8>> = ss.unwrap().into_iter().map(|k| k.into_bytes()).collect();
                assert!(sv == a && rs == g && sk == b && rk == b && ss == h, "into_str* differs from the byte forms");
            }
            (a, b, c, d, e, g, h)
        });
        match r {
            Ok((a, b, c, d, e, g, h)) => {
                let zip = |ks: &Vec<Vec<u8>>, vs: &Vec<u64>| -> Vec<Kv> { ks.iter().cloned().zip(vs.iter().cloned()).collect() };
                let vals: Vec<u64> = items.iter().map(|it| it.1).collect();
                for (via, got) in vec![
                    ("into_byte_vec", a.clone()),
                    ("into_byte_keys", zip(&b, &vals)),
                    ("into_values", if c.len() == items.len() { items.iter().map(|it| it.0.clone()).zip(c.iter().cloned()).collect() } else { zip(&vec![], &c) }),
                    ("keys", zip(&d, &vals)),
                    ("values", if e.len() == items.len() { items.iter().map(|it| it.0.clone()).zip(e.iter().cloned()).collect() } else { zip(&vec![], &e) }),
                    ("raw_into_byte_vec", g),
                    ("set_into_bytes", zip(&h, &vals)),
                ] {
                    self.ns += 1;
                    let s = self.ns;
                    self.log.ev(json!({"ev": "SNew", "s": s, "f": f, "via": via, "a": [], "bounds": [], "from": 0, "to": items.len(), "ws": false}));
                    let wrong_len = got.len() != items.len();
                    for (i, (k, v)) in got.iter().enumerate() {
                        self.log.ev(json!({"ev": "SNext", "s": s, "idx": i + 1, "res": [[jb(k), ju(*v)]]}));
                    }
                    if !wrong_len || got.len() < items.len() {
                        self.log.ev(json!({"ev": "SNext", "s": s, "idx": 0, "res": []}));
                    }
                }
            }
            Err(p) => self.panic_ev("Conveniences", &p),
        }
    }
}
