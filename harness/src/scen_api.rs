//! Drivers for the layer-A trace scenarios (C01-C06, C16).  They choose inputs and call
//! sequences; all results are judged by TLC against FstAbs.

use crate::api::*;
use crate::common::*;
use fst::{Map, Streamer};
use serde_json::json;
use crate::gen::*;
use crate::ops::*;
use crate::taut::*;
use rand::rngs::StdRng;
use rand::Rng;

pub const GEOMETRIES: &[Option<(usize, usize)>] = &[
    None,
    Some((0, 0)),
    Some((1, 1)),
    Some((1, 2)),
    Some((1, 3)),
    Some((2, 2)),
    Some((3, 1)),
    Some((64, 2)),
];

fn thorough(tier: &str) -> bool {
    tier == "thorough"
}

/// The inputs every scenario draws from: (name, keys).
pub fn inputs(r: &mut StdRng, tier: &str, with_corpora: bool) -> Vec<(String, Vec<Vec<u8>>)> {
    let mut v = directed_shapes(r);
    let nrand = if thorough(tier) { 60 } else { 12 };
    for i in 0..nrand {
        let n = *pick(r, &[3usize, 10, 40, 200, 1000]);
        let alpha = *pick(r, &[2usize, 3, 5, 16, 256]);
        let maxlen = *pick(r, &[2usize, 4, 8, 16]);
        v.push((format!("random-{}-n{}-a{}-l{}", i, n, alpha, maxlen), random_keys(r, n, alpha, maxlen)));
    }
    // stems x endings with random omissions: sub-automata that are equal, nearly equal (one a
    // prefix of the other's transition list) and different meet in the node cache
    let naff = if thorough(tier) { 200 } else { 50 };
    for i in 0..naff {
        let st = *pick(r, &[2usize, 3, 5, 8]);
        let en = *pick(r, &[2usize, 3, 4, 6]);
        v.push((format!("affix-{}-{}x{}", i, st, en), affix_keys(r, st, en)));
    }
    if with_corpora {
        v.push(("words-10000".into(), read_lines("words-10000")));
        if thorough(tier) {
            v.push(("wiki-urls-10000".into(), read_lines("wiki-urls-10000")));
            v.push(("words-100000".into(), read_lines("words-100000")));
        }
    }
    v
}

/// Every subset of a two-level universe (stems x endings) under every small cache geometry:
/// equal, nearly equal and different sub-automata meet in the node cache in every order.
pub fn exhaustive_two_level(s: &mut Sess, tier: &str) {
    let stems: &[u8] = b"1234";
    let endings: &[u8] = if thorough(tier) { b"abc" } else { b"ab" };
    let mut uni: Vec<Vec<u8>> = vec![];
    for &st in stems {
        for &en in endings {
            uni.push(vec![st, en]);
        }
    }
    uni.sort();
    let geos: &[Option<(usize, usize)>] = &[Some((1, 1)), Some((1, 2)), Some((1, 3)), Some((2, 2)), Some((0, 0)), None];
    let n = uni.len();
    let mut count = 0usize;
    for mask in 0u32..(1u32 << n) {
        let keys: Vec<Vec<u8>> = (0..n).filter(|i| mask & (1 << i) != 0).map(|i| uni[i].clone()).collect();
        for (gi, geo) in geos.iter().enumerate() {
            if count % 32 == 0 {
                s.reset();
            }
            count += 1;
            let as_set = (mask as usize + gi) % 2 == 0;
            let items: Vec<Kv> = keys.iter().enumerate().map(|(i, k)| (k.clone(), if as_set { 0 } else { (i as u64 % 3) * 7 })).collect();
            let front = if as_set { Front::SetInsert } else { Front::MapInsert };
            if let Some(f) = s.build(front, &items, *geo) {
                s.open(f, "raw");
                s.stream(f, "raw", &[], None, false, usize::MAX);
            }
        }
    }
}

/// A sink that accepts at most `cap` bytes per write call (legal for io::Write).
struct ChunkSink {
    bytes: Vec<u8>,
    cap: usize,
}
impl std::io::Write for ChunkSink {
    fn write(&mut self, buf: &[u8]) -> std::io::Result<usize> {
        let n = std::cmp::min(self.cap, buf.len());
        self.bytes.extend_from_slice(&buf[..n]);
        Ok(n)
    }
    fn flush(&mut self) -> std::io::Result<()> {
        Ok(())
    }
}

/// The round trip does not depend on the sink either: build through a writer that does short
/// writes (and through a BufWriter), then open the bytes the sink ended up with.
fn roundtrip_through_sinks(s: &mut Sess, items: &[Kv], r: &mut StdRng) {
    let m = s.model(items);
    for &cap in &[1usize, 3, 7] {
        let res = guard(|| {
            let mut b = fst::MapBuilder::new(ChunkSink { bytes: vec![], cap }).unwrap();
            for (k, v) in items {
                b.insert(k, *v).unwrap();
            }
            b.into_inner().unwrap().bytes
        });
        match res {
            Ok(bytes) => {
                let f = s.have(bytes, m, &format!("MapBuilder over a sink accepting {} bytes per write", cap));
                s.open(f, "raw");
                s.stream(f, *pick(r, &["raw", "map"]), &[], None, false, usize::MAX);
            }
            Err(p) => s.panic_ev("build-through-sink", &p),
        }
    }
    let res = guard(|| {
        let mut b = fst::MapBuilder::new(std::io::BufWriter::with_capacity(5, ChunkSink { bytes: vec![], cap: 2 })).unwrap();
        for (k, v) in items {
            b.insert(k, *v).unwrap();
        }
        b.into_inner().unwrap().into_inner().map_err(|_| ()).unwrap().bytes
    });
    match res {
        Ok(bytes) => {
            let f = s.have(bytes, m, "MapBuilder over BufWriter(5) over a 2-byte sink");
            s.open(f, "raw");
            s.stream(f, "raw", &[], None, false, usize::MAX);
        }
        Err(p) => s.panic_ev("build-through-bufwriter", &p),
    }
}

/// The key at position `i` of the big map (Trace_Api!BigKey computes the same).
pub fn big_key(i: usize) -> [u8; 11] {
    let a = (i * 1103) % 65521;
    let b = (i * 977 + 12345) % 65519;
    let c = (i * 733 + 7) % 65497;
    [(i / 65536 % 256) as u8, (i / 256 % 256) as u8, (i % 256) as u8, (a / 256) as u8, (a % 256) as u8, (b / 256) as u8, (b % 256) as u8,
     (c / 256) as u8, (c % 256) as u8, ((a + 3 * b) % 251) as u8, ((b + 5 * c) % 241) as u8]
}
pub const BIG_N: usize = 1_300_000;

pub fn big_map() -> Vec<u8> {
    let mut b = fst::MapBuilder::memory();
    for i in 0..BIG_N {
        b.insert(&big_key(i), (i * 7 + 1) as u64).unwrap();
    }
    b.into_inner().unwrap()
}

/// C01 at scale: length, number of streamed entries and a sample of positions of the big map.
pub fn big_roundtrip(s: &mut Sess) {
    let r = guard(|| {
        let bytes = big_map();
        let m = Map::new(bytes).unwrap();
        let mut evs = vec![];
        let mut st = m.stream();
        let mut i = 0usize;
        while let Some((k, v)) = st.next() {
            if i % 997 == 0 || i < 40 || i + 40 >= BIG_N {
                evs.push(json!({"ev": "Big", "what": "item", "n": BIG_N, "i": i, "k": jb(k), "v": ju(v)}));
            }
            i += 1;
        }
        evs.insert(0, json!({"ev": "Big", "what": "len", "n": BIG_N, "len": m.len(), "count": i, "empty": m.is_empty(), "size": m.as_fst().size()}));
        evs
    });
    match r {
        Ok(evs) => evs.into_iter().for_each(|e| s.log.ev(e)),
        Err(p) => s.panic_ev("Big", &p),
    }
}

/// C02 / C16 at scale: lookups, misses and inverse lookups on a sample of the big map.
pub fn big_lookups(s: &mut Sess, inverse: bool) {
    let r = guard(|| {
        let bytes = big_map();
        let m = Map::new(bytes).unwrap();
        let mut evs = vec![];
        let mut i = 0usize;
        while i < BIG_N {
            let k = big_key(i);
            if inverse {
                let v = (i * 7 + 1) as u64;
                evs.push(json!({"ev": "Big", "what": "getkey", "n": BIG_N, "i": i, "v": ju(v), "res": m.as_fst().get_key(v).map(|k: Vec<u8>| vec![jb(&k)]).unwrap_or_default()}));
                evs.push(json!({"ev": "Big", "what": "nokey", "n": BIG_N, "i": i, "v": ju(v + 1), "res": m.as_fst().get_key(v + 1).map(|k: Vec<u8>| vec![jb(&k)]).unwrap_or_default()}));
            } else {
                evs.push(json!({"ev": "Big", "what": "get", "n": BIG_N, "i": i, "k": jb(&k), "res": m.get(&k).map(|v| vec![ju(v)]).unwrap_or_default(), "contains": m.contains_key(&k)}));
                let mut x = k.to_vec();
                x.push(0);
                evs.push(json!({"ev": "Big", "what": "miss", "n": BIG_N, "i": i, "k": jb(&x), "res": m.get(&x).map(|v| vec![ju(v)]).unwrap_or_default(), "contains": m.contains_key(&x)}));
            }
            i += if i < 50 || i + 50 >= BIG_N { 1 } else { 1237 };
        }
        evs
    });
    match r {
        Ok(evs) => evs.into_iter().for_each(|e| s.log.ev(e)),
        Err(p) => s.panic_ev("Big", &p),
    }
}

pub fn c01(s: &mut Sess, seed: u64, tier: &str) {
    big_roundtrip(s);
    let mut r = rng(seed, 1);
    exhaustive_two_level(s, tier);
    let ins = inputs(&mut r, tier, true);
    for (name, keys) in ins {
        let big = keys.len() > 2000;
        let nmodes = if big { 1 } else if thorough(tier) { 6 } else { 3 };
        for mi in 0..nmodes {
            let mode = if big { ValMode::Index } else if mi == 0 { ValMode::Boundary } else { *pick(&mut r, VAL_MODES) };
            let items = assign(keys.clone(), mode, &mut r);
            s.reset();
            let nfront = if big { 1 } else { 2 };
            for _ in 0..nfront {
                let front = *pick(&mut r, MAP_FRONTS);
                let geo = *pick(&mut r, GEOMETRIES);
                if let Some(f) = s.build(front, &items, geo) {
                    s.open(f, *pick(&mut r, &["raw", "map", "slice"]));
                    s.stream(f, *pick(&mut r, &["raw", "map"]), &[], None, false, usize::MAX);
                    if !big && r.gen_range(0, 4) == 0 {
                        s.stream_conveniences(f);
                    }
                }
            }
            if mi == 0 && items.len() <= 300 {
                roundtrip_through_sinks(s, &items, &mut r);
            }
            // the same keys as a set
            if mi == 0 && !big {
                let front = if items.len() > 300 { *pick(&mut r, &[Front::RawAdd, Front::SetInsert]) } else { *pick(&mut r, SET_FRONTS) };
                let geo = *pick(&mut r, GEOMETRIES);
                if let Some(f) = s.build(front, &items, geo) {
                    s.open(f, "set");
                    s.stream(f, "set", &[], None, false, usize::MAX);
                }
            }
        }
        let _ = name;
    }
}

/// Every subset of a two-level universe built as a map under cache geometries that evict all the
/// time, probed with every key of the universe, its prefixes and one-byte extensions.
fn lookups_two_level(s: &mut Sess, tier: &str) {
    let mut uni: Vec<Vec<u8>> = vec![];
    for &st in b"1234" {
        for &en in b"dj" {
            uni.push(vec![st, en]);
        }
    }
    uni.sort();
    let mut probes: Vec<Vec<u8>> = vec![vec![]];
    for k in &uni {
        probes.push(k.clone());
        probes.push(k[..1].to_vec());
        let mut e = k.clone();
        e.push(b'd');
        probes.push(e);
    }
    probes.sort();
    probes.dedup();
    let geos: &[Option<(usize, usize)>] = &[Some((1, 1)), Some((1, 2)), Some((2, 2)), Some((1, 3))];
    let mut count = 0usize;
    for mask in 0u32..(1u32 << uni.len()) {
        let keys: Vec<Vec<u8>> = (0..uni.len()).filter(|i| mask & (1 << i) != 0).map(|i| uni[i].clone()).collect();
        for (gi, geo) in geos.iter().enumerate() {
            let _ = (gi, tier);
            if count % 24 == 0 {
                s.reset();
            }
            count += 1;
            let items: Vec<Kv> = keys.iter().enumerate().map(|(i, k)| (k.clone(), [10u64, 20, 20, 30, 40, 2650, 22, 0][(i + mask as usize) % 8])).collect();
            // (through every way of filling a map builder, in turn)
            if let Some(f) = s.build(MAP_FRONTS[(count / 4 + gi) % MAP_FRONTS.len()], &items, *geo) {
                for (pi, p) in probes.iter().enumerate() {
                    match (pi + count) % 3 {
                        0 => s.get(f, p, "map"),
                        1 => s.contains(f, p, "set"),
                        _ => s.get(f, p, "raw"),
                    }
                }
            }
        }
    }
}

pub fn c02(s: &mut Sess, seed: u64, tier: &str) {
    let mut r = rng(seed, 2);
    big_lookups(s, false);
    lookups_two_level(s, tier);
    let ins = inputs(&mut r, tier, true);
    let mut nin = 0usize;
    for (_name, keys) in ins {
        let big = keys.len() > 2000;
        let mode = if big { ValMode::Index } else { *pick(&mut r, VAL_MODES) };
        let items = assign(keys.clone(), mode, &mut r);
        s.reset();
        let geo = *pick(&mut r, GEOMETRIES);
        nin += 1;
        // every fourth small input is streamed into a sink that accepts a few bytes per write
        let built = if !big && nin % 4 == 1 { s.build_through_sink(&items, [0usize, 3, 5, 64][(nin / 4) % 4], seed + nin as u64) }
                    // (every way of filling a map builder, in turn)
                    else { s.build(if big { Front::MapInsert } else { MAP_FRONTS[nin % MAP_FRONTS.len()] }, &items, if big { None } else { geo }) };
        let f = match built {
            Some(f) => f,
            None => continue,
        };
        // the empty key, whatever the content
        s.get(f, b"", "map");
        s.get(f, b"", "raw");
        s.contains(f, b"", "raw");
        s.contains(f, b"", "set");
        let maxp = if thorough(tier) { 4000 } else { 1200 };
        let ps = probes(&items, &mut r, maxp);
        for p in &ps {
            match r.gen_range(0, 5) {
                0 => s.get(f, p, "raw"),
                1 => s.get(f, p, "map"),
                2 => s.contains(f, p, "raw"),
                3 => s.contains(f, p, "map"),
                _ => s.contains(f, p, "set"),
            }
        }
        // wide nodes: probe all 256 bytes below every prefix of the first and last key
        if !big && !items.is_empty() {
            for it in &[items[0].clone(), items[items.len() - 1].clone(), items[items.len() / 2].clone()] {
                for n in 0..=std::cmp::min(it.0.len(), 3) {
                    for b in 0..=255u8 {
                        let mut p = it.0[..n].to_vec();
                        p.push(b);
                        if b % 2 == 0 {
                            s.get(f, &p, "map")
                        } else {
                            s.contains(f, &p, "raw")
                        }
                    }
                }
            }
        }
    }
}

fn rand_bounds(r: &mut StdRng, bk: &[Vec<u8>]) -> Vec<(String, Vec<u8>)> {
    let mut b = vec![];
    let n = *pick(r, &[0usize, 1, 1, 2, 2, 2, 3, 4]);
    for _ in 0..n {
        let kind = *pick(r, &["ge", "gt", "le", "lt"]);
        b.push((kind.to_string(), pick(r, bk).clone()));
    }
    b
}

/// The scope of MC_Reader replayed against the code: every key set of <= 3 (thorough 4) keys over
/// the 7-key universe {a, 0xFF}^(<=2), values that put outputs on transitions and final states,
/// and every (lower, upper) bound pair over the universe plus one-byte extensions.
pub fn exhaustive_reader(s: &mut Sess, tier: &str, with_aut: bool) {
    let uni = universe(&[b'a', 0xFF], 2);
    let mut bks = uni.clone();
    bks.push(vec![b'a', 0xFF, 0xFF]);
    bks.push(vec![0xFF, 0xFF, 0xFF]);
    bks.push(vec![b'a', b'a', b'a']);
    bks.push(vec![b'b']);
    let maxkeys = if thorough(tier) { 4 } else { 3 };
    let mut count = 0usize;
    // all 2-state DFAs over classes {a, other} with exact hints and with hints fully weakened
    let mut dfas: Vec<TableAut> = vec![];
    if with_aut {
        let mut cls = vec![2usize; 256];
        cls[b'a' as usize] = 1;
        for d in 0..16usize {
            for m in 1..4usize {
                let delta = vec![vec![1 + (d & 1), 1 + ((d >> 1) & 1)], vec![1 + ((d >> 2) & 1), 1 + ((d >> 3) & 1)]];
                let mut a = TableAut { n: 2, start: 1, cls: cls.clone(), delta, matches: vec![m & 1 != 0, m & 2 != 0], can: vec![true; 2], always: vec![false; 2], eof: vec![] };
                a.exact_hints();
                dfas.push(a.clone());
                a.can = vec![true; 2];
                a.always = vec![false; 2];
                dfas.push(a);
            }
        }
    }
    for mask in 0u32..(1u32 << uni.len()) {
        if (mask.count_ones() as usize) > maxkeys {
            continue;
        }
        let items: Vec<Kv> = (0..uni.len())
            .filter(|i| mask & (1 << i) != 0)
            .map(|i| (uni[i].clone(), (3 * uni[i].len() as u64 + if uni[i].is_empty() { 7 } else { uni[i][0] as u64 }) * if i % 2 == 0 { 1 } else { 300 }))
            .collect();
        s.reset();
        let f = match s.build(Front::MapInsert, &items, None) {
            Some(f) => f,
            None => continue,
        };
        if with_aut {
            for (ai, a) in dfas.iter().enumerate() {
                let aid = s.aut(a);
                let b: Vec<(String, Vec<u8>)> = match (ai + mask as usize) % 4 {
                    0 => vec![],
                    1 => vec![("ge".into(), bks[(ai + count) % bks.len()].clone())],
                    2 => vec![("gt".into(), bks[(ai + count) % bks.len()].clone()), ("le".into(), bks[(ai * 3 + 1) % bks.len()].clone())],
                    _ => vec![("gt".into(), bks[(ai * 5 + count) % bks.len()].clone())],
                };
                s.stream(f, "raw", &b, Some(aid), true, usize::MAX);
                count += 1;
            }
        } else {
            for lo in 0..(1 + 2 * bks.len()) {
                for hi in 0..(1 + 2 * bks.len()) {
                    let mut b: Vec<(String, Vec<u8>)> = vec![];
                    if lo > 0 {
                        b.push((if lo % 2 == 1 { "ge" } else { "gt" }.into(), bks[(lo - 1) / 2].clone()));
                    }
                    if hi > 0 {
                        b.push((if hi % 2 == 1 { "le" } else { "lt" }.into(), bks[(hi - 1) / 2].clone()));
                    }
                    s.stream(f, if count % 3 == 0 { "map" } else { "raw" }, &b, None, false, usize::MAX);
                    count += 1;
                }
            }
        }
    }
}

/// Bounds that leave the key tree at a node, for every byte value, at nodes of several widths whose
/// transitions have gaps (the next greater transition may be any byte, incl. 0xFF; there may be none).
fn bounds_leaving_nodes(s: &mut Sess, r: &mut StdRng) {
    let widths: &[usize] = &[1, 2, 5, 31, 32, 33, 40, 100, 255];
    for (wi, &w) in widths.iter().enumerate() {
        for &(prefix, top) in &[(&b""[..], 0xFFu8), (&b"ab"[..], 0xFF), (&b"q"[..], 0xF0)] {
            // w - 1 low bytes starting at 2 (step 1 or 2), a gap, then `top`
            let step = if w <= 100 { 2 } else { 1 };
            let mut bytes: Vec<u8> = (0..w.saturating_sub(1)).map(|i| (2 + i * step) as u8).filter(|&b| b < top).collect();
            bytes.push(top);
            let mut keys: Vec<Vec<u8>> = vec![];
            for &b in &bytes {
                let mut k = prefix.to_vec();
                k.push(b);
                keys.push(k.clone());
                if b == top || b % 7 == 2 {
                    k.push(1);
                    keys.push(k);
                }
            }
            keys.sort();
            keys.dedup();
            let items = assign(keys, if wi % 2 == 0 { ValMode::Index } else { ValMode::Zero }, r);
            s.reset();
            let f = match s.build(Front::MapInsert, &items, None) {
                Some(f) => f,
                None => continue,
            };
            for b in 0..=255u8 {
                let mut k = prefix.to_vec();
                k.push(b);
                let kind = if b % 2 == 0 { "ge" } else { "gt" };
                let limit = if w >= 100 { 6 } else { usize::MAX };
                s.stream(f, *pick(r, &["raw", "map", "set"]), &[(kind.to_string(), k.clone())], None, false, limit);
                if b % 16 == 15 || b >= 0xEE {
                    let other = if kind == "ge" { "gt" } else { "ge" };
                    k.push(0);
                    s.stream(f, "raw", &[(other.to_string(), k)], None, false, limit);
                }
            }
        }
    }
}

/// Bounds one step apart: the smallest key above `k` is `k\0`, so the ranges (k, k\0], (k, k\0),
/// [k, k\0] and [k, k\0) hold one key or none.  Every (lower, upper) pair with every kind over keys
/// that are each other's successors, stored or not.
fn successor_bounds(s: &mut Sess, r: &mut StdRng) {
    let cands: Vec<Vec<u8>> = vec![
        vec![], vec![0], vec![0, 0], vec![0, 1], vec![1], vec![b'a'], vec![b'a', 0], vec![b'a', 0, 0], vec![b'a', 0, b'b'], vec![b'a', b'b'],
        vec![b'a', b'b', 0], vec![0xFF], vec![0xFF, 0],
    ];
    for (vi, mask) in [0x1FFFu32, 0x0AAA, 0x1555, 0x0F0F, 0x1246].iter().enumerate() {
        let keys: Vec<Vec<u8>> = cands.iter().enumerate().filter(|(i, _)| mask & (1 << i) != 0).map(|(_, k)| k.clone()).collect();
        let items = assign(keys, if vi % 2 == 0 { ValMode::Index } else { ValMode::Zero }, r);
        s.reset();
        let f = match s.build(Front::MapInsert, &items, None) {
            Some(f) => f,
            None => continue,
        };
        for lo in &cands {
            for hi in &cands {
                for lk in &["ge", "gt"] {
                    for hk in &["le", "lt"] {
                        let via = *pick(r, &["raw", "map", "set"]);
                        s.stream(f, via, &[(lk.to_string(), lo.clone()), (hk.to_string(), hi.clone())], None, false, usize::MAX);
                    }
                }
            }
        }
    }
}

pub fn c03(s: &mut Sess, seed: u64, tier: &str) {
    let mut r = rng(seed, 3);
    exhaustive_reader(s, tier, false);
    bounds_leaving_nodes(s, &mut r);
    successor_bounds(s, &mut r);
    let ins = inputs(&mut r, tier, true);
    let mut nin = 0usize;
    for (_name, keys) in ins {
        let big = keys.len() > 2000;
        let mode = if big { ValMode::Index } else { *pick(&mut r, VAL_MODES) };
        let items = assign(keys.clone(), mode, &mut r);
        s.reset();
        let geo = if big { None } else { *pick(&mut r, GEOMETRIES) };
        nin += 1;
        let built = if !big && nin % 5 == 2 { s.build_through_sink(&items, [3usize, 0, 7][(nin / 5) % 3], seed + nin as u64) } else { s.build(Front::MapInsert, &items, geo) };
        let f = match built {
            Some(f) => f,
            None => continue,
        };
        let nb = if big { 30 } else if thorough(tier) { 120 } else { 40 };
        let bk = bound_keys(&items, &mut r, 64);
        for _ in 0..nb {
            let b = rand_bounds(&mut r, &bk);
            let via = *pick(&mut r, &["raw", "map", "set"]);
            s.stream(f, via, &b, None, false, if big { 300 } else { usize::MAX });
        }
        // every single bound kind with every bound key once (small inputs)
        if items.len() <= 64 {
            for k in bk.iter().take(24) {
                for kind in &["ge", "gt", "le", "lt"] {
                    s.stream(f, "raw", &[(kind.to_string(), k.clone())], None, false, usize::MAX);
                }
            }
        }
    }
}

/// Beyond C04 (which excludes it): automata with an end-of-key hook (`accept_eof`).  Hints are
/// weakened to "may match" everywhere, since soundness of the precise hints is defined for
/// hook-free automata.
pub fn c04_eof(s: &mut Sess, seed: u64, tier: &str) {
    let mut r = rng(seed, 404);
    let ins = inputs(&mut r, tier, false);
    for (_name, keys) in ins {
        if keys.len() > 400 {
            continue;
        }
        let items = assign(keys.clone(), *pick(&mut r, VAL_MODES), &mut r);
        s.reset();
        let f = match s.build(Front::MapInsert, &items, None) {
            Some(f) => f,
            None => continue,
        };
        let mut letters: Vec<u8> = keys.iter().flat_map(|k| k.iter().cloned()).take(64).collect();
        letters.sort();
        letters.dedup();
        if letters.is_empty() {
            letters.push(b'a');
        }
        let bk = bound_keys(&items, &mut r, 16);
        for _ in 0..(if thorough(tier) { 12 } else { 4 }) {
            let n = r.gen_range(1, 6);
            let mut a = TableAut::random(&mut r, n, &letters);
            a.can = vec![true; n];
            a.always = vec![false; n];
            a.eof = (0..n).map(|_| if r.gen_range(0, 3) == 0 { 0 } else { r.gen_range(1, n + 1) }).collect();
            let aid = s.aut(&a);
            for _ in 0..3 {
                let b = if r.gen_range(0, 3) == 0 { vec![] } else { rand_bounds(&mut r, &bk) };
                let via = *pick(&mut r, &["raw", "map", "set"]);
                s.stream(f, via, &b, Some(aid), r.gen_range(0, 2) == 0, usize::MAX);
            }
        }
    }
}

pub fn c04(s: &mut Sess, seed: u64, tier: &str) {
    let mut r = rng(seed, 4);
    exhaustive_reader(s, tier, true);
    let ins = inputs(&mut r, tier, false);
    let mut nin = 0usize;
    for (_name, keys) in ins {
        if keys.len() > 1500 {
            continue;
        }
        let items = assign(keys.clone(), *pick(&mut r, VAL_MODES), &mut r);
        s.reset();
        nin += 1;
        let geo = *pick(&mut r, GEOMETRIES);
        let built = if nin % 5 == 3 { s.build_through_sink(&items, [5usize, 0, 2][(nin / 5) % 3], seed + nin as u64) } else { s.build(Front::MapInsert, &items, geo) };
        let f = match built {
            Some(f) => f,
            None => continue,
        };
        let mut letters: Vec<u8> = keys.iter().flat_map(|k| k.iter().cloned()).take(64).collect();
        letters.sort();
        letters.dedup();
        if letters.is_empty() {
            letters.push(b'a');
        }
        let bk = bound_keys(&items, &mut r, 32);
        let na = if thorough(tier) { 24 } else { 8 };
        for _ in 0..na {
            let n = r.gen_range(1, 9);
            let mut a = TableAut::random(&mut r, n, &letters);
            let wp = *pick(&mut r, &[0u32, 30, 100]);
            a.weaken_hints(&mut r, wp);
            let aid = s.aut(&a);
            for _ in 0..3 {
                let b = if r.gen_range(0, 3) == 0 { vec![] } else { rand_bounds(&mut r, &bk) };
                let via = *pick(&mut r, &["raw", "map", "set"]);
                let ws = r.gen_range(0, 2) == 0;
                s.stream(f, via, &b, Some(aid), ws, usize::MAX);
            }
        }
        // regular expressions compiled by regex-automata (its DFAs implement fst::Automaton):
        // the reachable table is extracted through the trait, so TLC runs the very same automaton
        for pat in &["a.*", "[a-f]+", ".*(ab|ba).*", "(x|y)?z*", "[^a]*a[^a]*", "\\x00*.{0,2}"] {
            let dfa = match regex_automata::dense::Builder::new().anchored(true).build(pat) {
                Ok(d) => d,
                Err(_) => continue,
            };
            if let Some(a) = tabulate(&dfa, 300) {
                let aid = s.aut(&a);
                let b = if r.gen_range(0, 2) == 0 { vec![] } else { rand_bounds(&mut r, &bk) };
                s.stream(f, *pick(&mut r, &["raw", "map", "set"]), &b, Some(aid), r.gen_range(0, 2) == 0, usize::MAX);
            }
        }
        // automata tabulated from the shipped ones
        if !items.is_empty() {
            let k = items[r.gen_range(0, items.len())].0.clone();
            if let Ok(st) = std::str::from_utf8(&k) {
                let a = tabulate(&fst::automaton::Str::new(st), 1000).unwrap();
                let aid = s.aut(&a);
                s.stream(f, "map", &[], Some(aid), true, usize::MAX);
                if !st.is_empty() {
                    let sub: String = st.chars().step_by(2).collect();
                    let a = tabulate(&fst::automaton::Subsequence::new(&sub), 1000).unwrap();
                    let aid = s.aut(&a);
                    s.stream(f, "raw", &rand_bounds(&mut r, &bk), Some(aid), true, usize::MAX);
                }
            }
        }
    }
}

fn subset(r: &mut StdRng, uni: &[Kv], p: u32, idx: usize, vmode: u32) -> Vec<Kv> {
    let mut out = vec![];
    for (k, v) in uni.iter() {
        if r.gen_range(0, 100) >= p {
            continue;
        }
        let val = match vmode {
            0 => 5,
            1 => v.wrapping_add(1000 * idx as u64),
            // zeros and non-zeros interleaved, pack-size boundaries
            2 => *pick(r, &[0u64, 0, 0, 1, 2, 255, 256, 65536, u64::MAX]),
            3 => 0,
            _ => BOUNDARY_VALUES[r.gen_range(0, BOUNDARY_VALUES.len())],
        };
        out.push((k.clone(), val));
    }
    out
}

pub fn c05(s: &mut Sess, seed: u64, tier: &str) {
    let mut r = rng(seed, 5);
    // "any number of input streams": a few operations over hundreds of them
    let many: &[usize] = if thorough(tier) { &[257, 258, 300, 513] } else { &[257, 258] };
    for (round, &k) in many.iter().enumerate() {
        s.reset();
        let mut ins = vec![];
        for j in 0..k {
            // every stream holds the common key, most one key of their own, some a shared one
            let mut items: Vec<Kv> = vec![(b"common".to_vec(), j as u64)];
            if j % 5 != 0 {
                items.push((format!("own{:04}", j).into_bytes(), 1));
            }
            if j % 2 == 0 {
                items.push((b"pair".to_vec(), (j / 2) as u64));
            }
            if j >= 256 {
                items.push((format!("late{:03}", j % 7).into_bytes(), 3));
            }
            items.sort();
            ins.push(OpInput { items, kind: if j % 50 == 7 { InKind::User } else { InKind::Whole } });
        }
        for op in &["union", "intersection", "difference", "symmetric_difference"] {
            match (round + op.len()) % 3 {
                0 => s.op(op, &ins, "raw", usize::MAX),
                1 => s.op(op, &ins, "map", usize::MAX),
                _ => s.set_op(op, &ins, usize::MAX),
            }
        }
    }
    let rounds = if thorough(tier) { 3000 } else { 600 };
    let kinds = [InKind::Whole, InKind::Range, InKind::Search, InKind::User];
    for round in 0..rounds {
        if round % 8 == 0 {
            s.reset();
        }
        let n = *pick(&mut r, &[0usize, 1, 3, 8, 30, 120]);
        let alpha = *pick(&mut r, &[2usize, 3, 8]);
        let ml = *pick(&mut r, &[1usize, 2, 4, 6]);
        let uk = random_keys(&mut r, n, alpha, ml);
        let uni = assign(uk, ValMode::Index, &mut r);
        let k = *pick(&mut r, &[1usize, 2, 2, 3, 3, 4, 5, 6]);
        let vmode = *pick(&mut r, &[0u32, 1, 1, 2, 2, 2, 3, 4]);
        let identical = r.gen_range(0, 6) == 0;
        let mut ins = vec![];
        for j in 0..k {
            let p = *pick(&mut r, &[0u32, 30, 60, 100]);
            let items = if identical && j > 0 {
                let it: &OpInput = &ins[0];
                it.items.clone()
            } else {
                {
                    let vm = if vmode == 2 && r.gen_range(0, 3) == 0 { 1 } else { vmode };
                    subset(&mut r, &uni, p, j, vm)
                }
            };
            ins.push(OpInput { items, kind: pick(&mut r, &kinds).clone() });
        }
        let op = *pick(&mut r, &["union", "intersection", "difference", "symmetric_difference"]);
        match r.gen_range(0, 5) {
            0 | 1 => s.op(op, &ins, "raw", usize::MAX),
            2 | 3 => s.op(op, &ins, "map", usize::MAX),
            _ => s.set_op(op, &ins, usize::MAX),
        }
        // predicates
        if r.gen_range(0, 2) == 0 {
            let a: Vec<Kv> = ins[0].items.iter().map(|(k, _)| (k.clone(), 0)).collect();
            if let Some(f) = s.build(Front::SetInsert, &a, None) {
                let other: Vec<Kv> = if ins.len() > 1 { ins[1].items.iter().map(|(k, _)| (k.clone(), 0)).collect() } else { a.clone() };
                for p in &["is_disjoint", "is_subset", "is_superset"] {
                    s.pred(p, f, &other, pick(&mut r, &[InKind::Whole, InKind::User]));
                }
                // a related pair: subset of a
                let sub: Vec<Kv> = a.iter().filter(|_| r.gen_range(0, 2) == 0).cloned().collect();
                s.pred("is_superset", f, &sub, &InKind::Whole);
                s.pred("is_subset", f, &sub, &InKind::User);
            }
            // the same predicates on the raw level, where both sides carry values (smaller, equal and
            // larger ones on the shared keys): the answer is about keys only
            if let Some(f) = s.build(Front::RawInsert, &ins[0].items, None) {
                let mut other: Vec<Kv> = if ins.len() > 1 { ins[1].items.clone() } else { ins[0].items.clone() };
                for p in &["is_disjoint", "is_subset", "is_superset"] {
                    s.pred_raw(p, f, &other, pick(&mut r, &[InKind::Whole, InKind::User]));
                }
                for shift in 0..3u64 {
                    other = ins[0].items.iter().filter(|_| r.gen_range(0, 3) != 0).map(|(k, v)| (k.clone(), match shift { 0 => v / 2, 1 => *v, _ => v.saturating_add(5) })).collect();
                    s.pred_raw("is_superset", f, &other, pick(&mut r, &[InKind::Whole, InKind::User]));
                    s.pred_raw("is_subset", f, &other, pick(&mut r, &[InKind::Whole, InKind::User]));
                    s.pred_raw("is_disjoint", f, &other, &InKind::Whole);
                }
            }
        }
    }
}

pub fn c06(s: &mut Sess, seed: u64, tier: &str) {
    let mut r = rng(seed, 6);
    let rounds = if thorough(tier) { 1500 } else { 400 };
    for round in 0..rounds {
        if round % 10 == 0 {
            s.reset();
        }
        // random histories with a configurable error rate
        let alpha = *pick(&mut r, &[2usize, 3, 6]);
        let n = *pick(&mut r, &[1usize, 2, 3, 5, 8, 20, 60]);
        let err = *pick(&mut r, &[0u32, 10, 30, 60]);
        let ml = *pick(&mut r, &[1usize, 2, 3, 5]);
        let sorted = random_keys(&mut r, n, alpha, ml);
        let mut calls: Vec<Kv> = vec![];
        let mut i = 0;
        while i < sorted.len() {
            if r.gen_range(0, 100) < err {
                // an invalid (or sometimes valid) arbitrary key
                let k = match r.gen_range(0, 4) {
                    0 if !calls.is_empty() => calls[calls.len() - 1].0.clone(),
                    1 if !calls.is_empty() => calls[r.gen_range(0, calls.len())].0.clone(),
                    2 => vec![],
                    _ => sorted[r.gen_range(0, sorted.len())].clone(),
                };
                calls.push((k, r.gen_range(0, 1000)));
            } else {
                calls.push((sorted[i].clone(), r.gen_range(0, 1000)));
                i += 1;
            }
        }
        let front = if r.gen_range(0, 2) == 0 { *pick(&mut r, MAP_FRONTS) } else { *pick(&mut r, SET_FRONTS) };
        if let Some(f) = s.build(front, &calls, *pick(&mut r, GEOMETRIES)) {
            s.open(f, "raw");
            s.stream(f, "raw", &[], None, false, usize::MAX);
        }
        // the same history cut into segments that reach one builder as single calls, extend_iter
        // batches and extend_stream batches in turn: batches arrive at a builder that already holds
        // keys, begin with a repeat of its last key or with a smaller key, and are followed by more
        if calls.len() >= 2 {
            let mut segs: Vec<(u8, Vec<Kv>)> = vec![];
            let mut i = 0;
            while i < calls.len() {
                let n = r.gen_range(1, 5);
                let how = r.gen_range(0, 3) as u8;
                let mut seg: Vec<Kv> = vec![];
                // every third batch starts with the key accepted last (or any earlier key)
                if how != 0 && i > 0 && r.gen_range(0, 3) == 0 {
                    let j = if r.gen_range(0, 2) == 0 { i - 1 } else { r.gen_range(0, i) };
                    seg.push((calls[j].0.clone(), r.gen_range(0, 1000)));
                }
                seg.extend(calls[i..std::cmp::min(calls.len(), i + n)].iter().cloned());
                segs.push((how, seg));
                i += n;
            }
            let kind = ["raw", "map", "set"][round % 3];
            if let Some(f) = s.build_session(kind, &segs) {
                s.open(f, "raw");
                s.stream(f, "raw", &[], None, false, usize::MAX);
            }
        }
    }
}

pub fn c16(s: &mut Sess, seed: u64, tier: &str) {
    let mut r = rng(seed, 16);
    big_lookups(s, true);
    let ins = inputs(&mut r, tier, true);
    let mut nin = 0usize;
    for (_name, keys) in ins {
        let big = keys.len() > 2000;
        for (mi, mode) in [ValMode::Index, ValMode::IndexFrom(1), ValMode::IncGaps, ValMode::IncHuge, ValMode::IndexFrom(255), ValMode::IncHuge].iter().enumerate() {
            if big && !matches!(mode, ValMode::IncGaps) {
                continue;
            }
            let mut items = assign(keys.clone(), *mode, &mut r);
            if mi == 5 {
                // the value scale ends at the largest value there is: the last key maps to u64::MAX,
                // the one before it to u64::MAX - 1 (still strictly increasing)
                let n = items.len();
                if n >= 1 {
                    items[n - 1].1 = u64::MAX;
                }
                if n >= 2 && items[n - 2].1 < u64::MAX - 1 && (n < 3 || items[n - 3].1 < u64::MAX - 1) {
                    items[n - 2].1 = u64::MAX - 1;
                }
            }
            s.reset();
            nin += 1;
            let geo = if big { None } else { *pick(&mut r, GEOMETRIES) };
            // (every sixth input with rejected calls in between: duplicates with a smaller and with a
            // larger value, a smaller key - none of them may leave a trace in the outputs)
            let with_rejects: Vec<Kv> = if !big && nin % 6 == 1 {
                let mut v = vec![];
                for (i, it) in items.iter().enumerate() {
                    v.push(it.clone());
                    if i % 2 == 0 {
                        v.push((it.0.clone(), it.1 / 2));
                        v.push((it.0.clone(), it.1.wrapping_add(1)));
                    }
                    if i % 5 == 3 {
                        v.push((items[i - 1].0.clone(), 0));
                    }
                }
                v
            } else {
                items.clone()
            };
            let built = if !big && nin % 6 == 4 { s.build_through_sink(&items, [0usize, 3, 9][(nin / 6) % 3], seed + nin as u64) } else { s.build(Front::MapInsert, &with_rejects, geo) };
            let f = match built {
                Some(f) => f,
                None => continue,
            };
            s.inc_model(s.fsts[f - 1].1);
            let mut qs: Vec<u64> = vec![0, 1, u64::MAX, u64::MAX - 1];
            let step = std::cmp::max(1, items.len() / 300);
            for (i, it) in items.iter().enumerate() {
                if i % step == 0 || i + 1 == items.len() {
                    qs.push(it.1);
                    qs.push(it.1.wrapping_add(1));
                    qs.push(it.1.wrapping_sub(1));
                }
            }
            for _ in 0..8 {
                qs.push(r.gen::<u64>() >> r.gen_range(0, 64) as u32);
            }
            // get_key_into appends to whatever the caller's buffer holds: short, long (longer
            // than the FST itself) and empty buffers
            let size = s.fsts[f - 1].0.len();
            let long1: Vec<u8> = (0..size + 7).map(|i| (i % 251) as u8).collect();
            let long2: Vec<u8> = vec![b'p'; std::cmp::max(1, size.saturating_sub(2))];
            // every third small map is also queried through the version-2 image of the same build
            // (version 2 is version 3 without the trailing checksum: same nodes, same index tables)
            let f2 = if !big && nin % 3 == 0 {
                let mut b2 = s.fsts[f - 1].0.clone();
                b2[..8].copy_from_slice(&2u64.to_le_bytes());
                b2.truncate(b2.len() - 4);
                let m = s.fsts[f - 1].1;
                let f2 = s.have(b2, m, "version-2 image of the same build");
                s.open(f2, "raw");
                Some(f2)
            } else {
                None
            };
            for q in qs {
                let prefix: &[u8] = match r.gen_range(0, 8) {
                    0 | 1 => b"buf:",
                    2 => &long1,
                    3 => &long2,
                    _ => b"",
                };
                if prefix.len() > 600 && r.gen_range(0, 4) != 0 {
                    s.get_key(f, q, b"");
                } else {
                    s.get_key(f, q, prefix);
                }
                if let Some(f2) = f2 {
                    s.get_key(f2, q, if prefix.len() > 600 { b"" } else { prefix });
                }
            }
        }
    }
}
