//! Table automata: an `Automaton` implemented from explicit tables (states are 1..=n as
//! in the TLA+ specification), and tabulation of arbitrary automata through the trait.

use crate::common::*;
use fst::Automaton;
use rand::rngs::StdRng;
use rand::Rng;
use serde_json::{json, Value};
use std::collections::HashMap;
use std::hash::Hash;

#[derive(Clone, Debug)]
pub struct TableAut {
    pub n: usize,
    pub start: usize,
    /// byte -> class (1-based)
    pub cls: Vec<usize>,
    /// delta[state-1][class-1] -> state
    pub delta: Vec<Vec<usize>>,
    pub matches: Vec<bool>,
    pub can: Vec<bool>,
    pub always: Vec<bool>,
    /// the end-of-key hook: empty (no hook), or per state 0 (None) / the state it moves to
    pub eof: Vec<usize>,
}

impl Automaton for TableAut {
    type State = usize;
    fn start(&self) -> usize {
        self.start
    }
    fn is_match(&self, s: &usize) -> bool {
        self.matches[*s - 1]
    }
    fn can_match(&self, s: &usize) -> bool {
        self.can[*s - 1]
    }
    fn will_always_match(&self, s: &usize) -> bool {
        self.always[*s - 1]
    }
    fn accept(&self, s: &usize, b: u8) -> usize {
        self.delta[*s - 1][self.cls[b as usize] - 1]
    }
    fn accept_eof(&self, s: &usize) -> Option<usize> {
        match self.eof.get(*s - 1) {
            Some(&t) if t != 0 => Some(t),
            _ => None,
        }
    }
}

impl TableAut {
    pub fn ncls(&self) -> usize {
        self.delta.get(0).map(|r| r.len()).unwrap_or(0)
    }
    pub fn run(&self, k: &[u8]) -> usize {
        let mut s = self.start;
        for &b in k {
            s = self.accept(&s, b);
        }
        s
    }
    pub fn accepts(&self, k: &[u8]) -> bool {
        self.is_match(&self.run(k))
    }
    fn set_of(v: &[bool]) -> Value {
        Value::Array(v.iter().enumerate().filter(|(_, &b)| b).map(|(i, _)| json!(i + 1)).collect())
    }
    pub fn to_json(&self, id: usize) -> Value {
        json!({"ev": "AutDef", "a": id, "n": self.n, "start": self.start,
               "cls": self.cls, "delta": self.delta,
               "match": Self::set_of(&self.matches), "can": Self::set_of(&self.can),
               "always": Self::set_of(&self.always),
               "eof": (0..self.n).map(|i| self.eof.get(i).cloned().unwrap_or(0)).collect::<Vec<usize>>()})
    }
    /// reach[s] = states reachable from s (including s)
    pub fn reach(&self) -> Vec<Vec<bool>> {
        let mut reach = vec![vec![false; self.n]; self.n];
        for s in 0..self.n {
            let mut stack = vec![s];
            reach[s][s] = true;
            while let Some(x) = stack.pop() {
                for &y in &self.delta[x] {
                    if !reach[s][y - 1] {
                        reach[s][y - 1] = true;
                        stack.push(y - 1);
                    }
                }
            }
        }
        reach
    }
    /// The most precise sound hints.
    pub fn exact_hints(&mut self) {
        let reach = self.reach();
        for s in 0..self.n {
            self.can[s] = (0..self.n).any(|t| reach[s][t] && self.matches[t]);
            self.always[s] = (0..self.n).all(|t| !reach[s][t] || self.matches[t]);
        }
    }
    /// Randomly weaken hints (still sound).
    pub fn weaken_hints(&mut self, r: &mut StdRng, p: u32) {
        for s in 0..self.n {
            if !self.can[s] && r.gen_range(0, 100) < p {
                self.can[s] = true;
            }
            if self.always[s] && r.gen_range(0, 100) < p {
                self.always[s] = false;
            }
        }
    }
    /// Random DFA with `n` states over byte classes derived from `letters`.
    pub fn random(r: &mut StdRng, n: usize, letters: &[u8]) -> TableAut {
        // classes: each listed letter gets a class with some probability, everything else shares one
        let mut cls = vec![1usize; 256];
        let mut ncls = 1;
        for &b in letters {
            if cls[b as usize] == 1 && r.gen_range(0, 3) != 0 && ncls < 6 {
                ncls += 1;
                cls[b as usize] = ncls;
            }
        }
        if r.gen_range(0, 3) == 0 {
            ncls += 1;
            for b in 128..256 {
                if cls[b] == 1 {
                    cls[b] = ncls;
                }
            }
        }
        let sink = if n > 1 && r.gen_range(0, 2) == 0 { Some(n) } else { None };
        let mut delta = vec![];
        for s in 1..=n {
            let mut row = vec![];
            for _ in 0..ncls {
                if Some(s) == sink {
                    row.push(s);
                } else if sink.is_some() && r.gen_range(0, 3) == 0 {
                    row.push(sink.unwrap());
                } else {
                    row.push(r.gen_range(1, n + 1));
                }
            }
            delta.push(row);
        }
        let mut matches: Vec<bool> = (0..n).map(|_| r.gen_range(0, 2) == 0).collect();
        if let Some(s) = sink {
            matches[s - 1] = r.gen_range(0, 4) == 0;
        }
        let mut a = TableAut { n, start: 1, cls, delta, matches, can: vec![true; n], always: vec![false; n], eof: vec![] };
        a.exact_hints();
        a
    }
}

/// Tabulate any automaton with hashable states by exploring the states reachable through the
/// trait; returns None if more than `limit` states are reachable.
pub fn tabulate<A: Automaton>(aut: &A, limit: usize) -> Option<TableAut>
where
    A::State: Hash + Eq + Clone,
{
    let mut ids: HashMap<A::State, usize> = HashMap::new();
    let mut states: Vec<A::State> = vec![];
    let mut rows: Vec<Vec<usize>> = vec![];
    let s0 = aut.start();
    ids.insert(s0.clone(), 1);
    states.push(s0);
    let mut i = 0;
    while i < states.len() {
        let s = states[i].clone();
        let mut row = Vec::with_capacity(256);
        for b in 0..=255u8 {
            let t = aut.accept(&s, b);
            let id = match ids.get(&t) {
                Some(&id) => id,
                None => {
                    if states.len() >= limit {
                        return None;
                    }
                    states.push(t.clone());
                    ids.insert(t, states.len());
                    states.len()
                }
            };
            row.push(id);
        }
        rows.push(row);
        i += 1;
    }
    // byte classes: bytes with identical columns
    let n = states.len();
    let mut colids: HashMap<Vec<usize>, usize> = HashMap::new();
    let mut cls = vec![0usize; 256];
    let mut reps: Vec<usize> = vec![];
    for b in 0..256 {
        let col: Vec<usize> = (0..n).map(|s| rows[s][b]).collect();
        let next = colids.len() + 1;
        let id = *colids.entry(col).or_insert_with(|| {
            reps.push(b);
            next
        });
        cls[b] = id;
    }
    let delta: Vec<Vec<usize>> = (0..n).map(|s| reps.iter().map(|&b| rows[s][b]).collect()).collect();
    Some(TableAut {
        n,
        start: 1,
        cls,
        delta,
        matches: states.iter().map(|s| aut.is_match(s)).collect(),
        can: states.iter().map(|s| aut.can_match(s)).collect(),
        always: states.iter().map(|s| aut.will_always_match(s)).collect(),
        eof: vec![],
    })
}

pub fn _unused(_: &Kv) {}
