//! Lock step with FstBuilder.tla: every call of a small build together with the nodes the real
//! builder handed to its node compiler during that call (hook H2), in order.  Judged by TLC
//! (Trace_Step.tla), which replays the specification's own actions against them.

use crate::common::*;
use crate::gen::*;
use fst::raw::verif::{self, CompileEvent};
use fst::raw::Builder;
use rand::rngs::StdRng;
use rand::Rng;
use serde_json::{json, Value};

fn jcomp(evs: &[CompileEvent]) -> Value {
    Value::Array(
        evs.iter()
            .map(|e| {
                let trans: Vec<Value> = e.node.trans.iter().map(|t| json!([t.0, jn(t.1 as usize), jn(t.2)])).collect();
                json!({"final": e.node.is_final, "fout": jn(e.node.final_output as usize), "trans": trans, "kind": e.kind, "addr": jn(e.addr), "evicted": e.evicted})
            })
            .collect(),
    )
}

/// One build, call by call.  `calls` may contain calls the ordering contract rejects.
pub fn stepped_build(log: &mut Log, calls: &[Kv], set: bool, geo: Option<(usize, usize)>) {
    verif::set_geometry(geo);
    verif::start_tap();
    let mut b = Builder::memory();
    let (rows, cols) = verif::last_geometry();
    log.ev(json!({"ev": "LNew", "set": set, "geo": format!("{:?}", geo), "rows": jn(rows), "cols": jn(cols)}));
    let mut items: Vec<Kv> = vec![];
    for (k, v) in calls {
        let v = if set { 0 } else { *v };
        let r = guard(|| if set { b.add(k) } else { b.insert(k, v) });
        let comp = verif::drain_tap();
        match r {
            Ok(r) => {
                if r.is_ok() && items.last().map(|it| &it.0 != k).unwrap_or(true) {
                    items.push((k.clone(), v));
                }
                log.ev(json!({"ev": "LCall", "k": jb(k), "v": jn(v as usize), "res": jres(&r), "comp": jcomp(&comp)}));
            }
            Err(p) => {
                log.ev(json!({"ev": "Panic", "in": "LCall", "msg": p}));
                verif::stop_tap();
                verif::set_geometry(None);
                return;
            }
        }
    }
    let r = guard(|| b.into_inner());
    let comp = verif::stop_tap();
    verif::set_geometry(None);
    match r {
        Ok(Ok(bytes)) => {
            let root = fst::raw::Fst::new(bytes).map(|f| f.root().addr()).unwrap_or(usize::MAX >> 34);
            let jit: Vec<Value> = items.iter().map(|(k, v)| json!([jb(k), jn(*v as usize)])).collect();
            log.ev(json!({"ev": "LFinish", "res": jok(), "comp": jcomp(&comp), "items": jit, "root": jn(root)}));
        }
        Ok(Err(e)) => log.ev(json!({"ev": "LFinish", "res": jerr(&e), "comp": jcomp(&comp), "items": [], "root": 0})),
        Err(p) => log.ev(json!({"ev": "Panic", "in": "LFinish", "msg": p})),
    }
}

fn small_values(r: &mut StdRng, n: usize, mode: usize) -> Vec<u64> {
    (0..n)
        .map(|i| match mode {
            0 => 0,
            1 => i as u64,
            2 => (n - i) as u64 * 3,
            3 => r.gen_range(0, 4),
            4 => r.gen_range(0, 1000),
            5 => *pick(r, &[0u64, 1, 255, 256, 65535, 65536, 1 << 20]),
            _ => 7,
        })
        .collect()
}

/// With probability `p` percent per position, a call the contract rejects (a repeat, a smaller
/// key, a prefix of the last key) is put in front of the next valid call.
fn with_rejects(r: &mut StdRng, items: &[Kv], p: u32) -> Vec<Kv> {
    let mut out: Vec<Kv> = vec![];
    for (i, it) in items.iter().enumerate() {
        if i > 0 && r.gen_range(0, 100) < p {
            let prev = &items[i - 1];
            match r.gen_range(0, 3) {
                0 => out.push((prev.0.clone(), prev.1 + 1)),
                1 => out.push((items[r.gen_range(0, i)].0.clone(), 5)),
                _ => out.push((prev.0[..prev.0.len().saturating_sub(1)].to_vec(), 9)),
            }
        }
        out.push(it.clone());
    }
    out
}

pub fn step(log: &mut Log, seed: u64, tier: &str, set: bool) {
    let thorough = tier == "thorough";
    let mut r = rng(seed, 121);
    let geos: &[Option<(usize, usize)>] = &[None, Some((0, 0)), Some((1, 1)), Some((1, 2)), Some((2, 2)), Some((3, 1)), Some((64, 2)), Some((1, 3)), Some((1, 5))];
    // every subset of a two-level universe, every value mode in turn
    let mut universe: Vec<Vec<u8>> = vec![vec![]];
    for a in &[b'a', 0xFFu8] {
        universe.push(vec![*a]);
        for b in &[b'a', b'b'] {
            universe.push(vec![*a, *b]);
            universe.push(vec![*a, *b, b'a']);
        }
    }
    universe.sort();
    let nsub = 1usize << universe.len();
    let stride = if thorough { 1 } else { 5 };
    let mut i = 0;
    while i < nsub {
        let keys: Vec<Vec<u8>> = universe.iter().enumerate().filter(|(j, _)| i >> j & 1 == 1).map(|(_, k)| k.clone()).collect();
        let vals = small_values(&mut r, keys.len(), i % 7);
        let items: Vec<Kv> = keys.into_iter().zip(vals).collect();
        stepped_build(log, &items, set, geos[i % geos.len()]);
        i += stride;
    }
    // directed shapes and random small maps, some with rejected calls in between
    let mut shapes: Vec<Vec<Vec<u8>>> = directed_shapes(&mut r).into_iter().map(|(_, k)| k).filter(|k| k.len() <= 80).collect();
    for _ in 0..(if thorough { 400 } else { 80 }) {
        let n = r.gen_range(0, 24);
        let alpha = *pick(&mut r, &[2usize, 3, 6]);
        let maxlen = *pick(&mut r, &[2usize, 4, 7]);
        shapes.push(random_keys(&mut r, n, alpha, maxlen));
    }
    // replacement order: two-byte keys whose second byte comes from a small alphabet in random order -
    // every key freezes the one-transition node of the key before it, so the cache sees a random
    // sequence of lookups over a handful of nodes (hits deep in a row, then evictions, then the
    // evicted or the survivor again), under one-row caches of 1, 2, 3 and 5 columns
    for j in 0..(if thorough { 160 } else { 48 }) {
        let nk = r.gen_range(8, 60);
        let alpha = *pick(&mut r, &[3usize, 4, 6, 8]);
        let items: Vec<Kv> = (0..nk).map(|i| (vec![0x21 + i as u8, b'a' + r.gen_range(0, alpha) as u8], 0)).collect();
        let geo = [Some((1, 1)), Some((1, 2)), Some((1, 3)), Some((1, 5))][j % 4];
        stepped_build(log, &items, set, geo);
    }
    for (j, keys) in shapes.into_iter().enumerate() {
        if !thorough && j % 3 != 0 && keys.len() > 40 {
            continue;
        }
        let vals = small_values(&mut r, keys.len(), j % 7);
        let items: Vec<Kv> = keys.into_iter().zip(vals).collect();
        let calls = if j % 2 == 0 { with_rejects(&mut r, &items, 25) } else { items };
        stepped_build(log, &calls, set, geos[j % geos.len()]);
    }
}
