//! A counting global allocator: live bytes, peak, number of allocations (C13, C14).

use std::alloc::{GlobalAlloc, Layout, System};
use std::sync::atomic::{AtomicUsize, Ordering};

pub struct Counting;

static LIVE: AtomicUsize = AtomicUsize::new(0);
static PEAK: AtomicUsize = AtomicUsize::new(0);
static ALLOCS: AtomicUsize = AtomicUsize::new(0);

/// An allocation request beyond this size cannot be meant: it is what a length field taken from
/// untrusted bytes produces.  Instead of letting the process abort (which nothing could record),
/// the request is remembered (`take_huge`) and served with a small block; the code under test only
/// ever puts a few hundred bytes into it.
const HUGE: usize = 1 << 33;
const SERVED: usize = 1 << 22;
static HUGE_REQ: AtomicUsize = AtomicUsize::new(0);

/// The size of the largest absurd allocation request since the last call (0: none).
pub fn take_huge() -> usize {
    HUGE_REQ.swap(0, Ordering::SeqCst)
}

fn served(l: Layout) -> Layout {
    Layout::from_size_align(SERVED, l.align()).unwrap()
}

unsafe impl GlobalAlloc for Counting {
    unsafe fn alloc(&self, l: Layout) -> *mut u8 {
        if l.size() >= HUGE {
            HUGE_REQ.fetch_max(l.size(), Ordering::SeqCst);
            return System.alloc(served(l));
        }
        let p = System.alloc(l);
        if !p.is_null() {
            let live = LIVE.fetch_add(l.size(), Ordering::Relaxed) + l.size();
            PEAK.fetch_max(live, Ordering::Relaxed);
            ALLOCS.fetch_add(1, Ordering::Relaxed);
        }
        p
    }
    unsafe fn alloc_zeroed(&self, l: Layout) -> *mut u8 {
        if l.size() >= HUGE {
            HUGE_REQ.fetch_max(l.size(), Ordering::SeqCst);
            return System.alloc_zeroed(served(l));
        }
        let p = self.alloc(l);
        if !p.is_null() {
            std::ptr::write_bytes(p, 0, l.size());
        }
        p
    }
    unsafe fn dealloc(&self, p: *mut u8, l: Layout) {
        if l.size() >= HUGE {
            System.dealloc(p, served(l));
            return;
        }
        System.dealloc(p, l);
        LIVE.fetch_sub(l.size(), Ordering::Relaxed);
    }
    unsafe fn realloc(&self, p: *mut u8, l: Layout, new: usize) -> *mut u8 {
        if l.size() >= HUGE || new >= HUGE {
            // through a fresh block, so that the real sizes on both sides are known
            let nl = Layout::from_size_align(new, l.align()).unwrap();
            let q = self.alloc(nl);
            if !q.is_null() {
                let old_real = if l.size() >= HUGE { SERVED } else { l.size() };
                let new_real = if new >= HUGE { SERVED } else { new };
                std::ptr::copy_nonoverlapping(p, q, std::cmp::min(old_real, new_real));
                self.dealloc(p, l);
            }
            return q;
        }
        let q = System.realloc(p, l, new);
        if !q.is_null() {
            if new >= l.size() {
                let live = LIVE.fetch_add(new - l.size(), Ordering::Relaxed) + (new - l.size());
                PEAK.fetch_max(live, Ordering::Relaxed);
            } else {
                LIVE.fetch_sub(l.size() - new, Ordering::Relaxed);
            }
            ALLOCS.fetch_add(1, Ordering::Relaxed);
        }
        q
    }
}

pub struct Snap {
    base: usize,
    allocs: usize,
}

/// Start a measured section: the peak is reset to the current live size.
pub fn begin() -> Snap {
    let base = LIVE.load(Ordering::SeqCst);
    PEAK.store(base, Ordering::SeqCst);
    Snap { base, allocs: ALLOCS.load(Ordering::SeqCst) }
}

/// (live - base, peak - base, allocations) since `begin`.
pub fn read(s: &Snap) -> (usize, usize, usize) {
    let live = LIVE.load(Ordering::SeqCst);
    let peak = PEAK.load(Ordering::SeqCst);
    (live.saturating_sub(s.base), peak.saturating_sub(s.base), ALLOCS.load(Ordering::SeqCst) - s.allocs)
}
