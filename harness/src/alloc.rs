//! A counting global allocator: live bytes, peak, number of allocations (C13, C14).

use std::alloc::{GlobalAlloc, Layout, System};
use std::sync::atomic::{AtomicUsize, Ordering};

pub struct Counting;

static LIVE: AtomicUsize = AtomicUsize::new(0);
static PEAK: AtomicUsize = AtomicUsize::new(0);
static ALLOCS: AtomicUsize = AtomicUsize::new(0);

unsafe impl GlobalAlloc for Counting {
    unsafe fn alloc(&self, l: Layout) -> *mut u8 {
        let p = System.alloc(l);
        if !p.is_null() {
            let live = LIVE.fetch_add(l.size(), Ordering::Relaxed) + l.size();
            PEAK.fetch_max(live, Ordering::Relaxed);
            ALLOCS.fetch_add(1, Ordering::Relaxed);
        }
        p
    }
    unsafe fn dealloc(&self, p: *mut u8, l: Layout) {
        System.dealloc(p, l);
        LIVE.fetch_sub(l.size(), Ordering::Relaxed);
    }
    unsafe fn realloc(&self, p: *mut u8, l: Layout, new: usize) -> *mut u8 {
        let q = System.realloc(p, l, new);
        if !q.is_null() {
            if new >= l.size() {
                let live = LIVE.fetch_add(new - l.size(), Ordering::Relaxed) + (new - l.size());
                PEAK.fetch_max(live, Ordering::Relaxed);
            } else {
                LIVE.fetch_sub(l.size() - new, Ordering::Relaxed);
            }
            ALLOCS.fetch_add(1, Ordering::Relaxed);
        }
        q
    }
}

pub struct Snap {
    base: usize,
    allocs: usize,
}

/// Start a measured section: the peak is reset to the current live size.
pub fn begin() -> Snap {
    let base = LIVE.load(Ordering::SeqCst);
    PEAK.store(base, Ordering::SeqCst);
    Snap { base, allocs: ALLOCS.load(Ordering::SeqCst) }
}

/// (live - base, peak - base, allocations) since `begin`.
pub fn read(s: &Snap) -> (usize, usize, usize) {
    let live = LIVE.load(Ordering::SeqCst);
    let peak = PEAK.load(Ordering::SeqCst);
    (live.saturating_sub(s.base), peak.saturating_sub(s.base), ALLOCS.load(Ordering::SeqCst) - s.allocs)
}
