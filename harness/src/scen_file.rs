//! Byte-level scenarios: builder output (C09), arbitrary bytes through the reader (C10, C20),
//! checksums (C08).  Judged by TLC against FstFormat alone (Trace_File.tla).

use crate::api::*;
use crate::common::*;
use crate::gen::*;
use crate::scen_api::{inputs, GEOMETRIES};
use fst::raw::verif::{self, VerifNode};
use fst::raw::{Builder, Fst};
use rand::rngs::StdRng;
use rand::Rng;
use serde_json::{json, Value};

fn thorough(tier: &str) -> bool {
    tier == "thorough"
}

/// Build through the raw builder with a given type; returns (bytes, emitted node count).
pub fn build_raw(items: &[Kv], ty: u64, set: bool, geo: Option<(usize, usize)>) -> (Vec<u8>, usize) {
    verif::set_geometry(geo);
    verif::start_tap();
    let mut b = Builder::new_type(Vec::new(), ty).unwrap();
    for (k, v) in items {
        if set {
            b.add(k).unwrap();
        } else {
            b.insert(k, *v).unwrap();
        }
    }
    let bytes = b.into_inner().unwrap();
    let evs = verif::stop_tap();
    verif::set_geometry(None);
    let emitted = evs.iter().filter(|e| e.kind == 2).count();
    (bytes, emitted)
}

pub fn file_ev(log: &mut Log, bytes: &[u8], items: &[Kv], ty: u64, nodes: i64, origin: &str) {
    log.ev(json!({"ev": "File", "origin": origin, "bytes": jb(bytes), "items": jitems(items), "ty": ju(ty), "nodes": nodes}));
}

pub fn c09(log: &mut Log, seed: u64, tier: &str) {
    let mut r = rng(seed, 9);
    let ins = inputs(&mut r, tier, true);
    // every subset of a two-level universe under cache geometries that evict all the time: a
    // recycled cache cell must never stand for a node it does not equal
    {
        let mut uni: Vec<Vec<u8>> = vec![];
        for &st in b"1234" {
            for &en in b"dj" {
                uni.push(vec![st, en]);
            }
        }
        uni.sort();
        let geos: &[Option<(usize, usize)>] = &[Some((1, 1)), Some((1, 2)), Some((2, 2)), Some((1, 3))];
        let stride = 1;
        let mut count = 0usize;
        for mask in (0u32..(1u32 << uni.len())).step_by(stride) {
            let keys: Vec<Vec<u8>> = (0..uni.len()).filter(|i| mask & (1 << i) != 0).map(|i| uni[i].clone()).collect();
            for (_gi, geo) in geos.iter().enumerate() {
                count += 1;
                let as_set = count % 3 == 0;
                let items: Vec<Kv> = keys.iter().enumerate().map(|(i, k)| (k.clone(), if as_set { 0 } else { [10u64, 20, 20, 30, 40, 2650, 22, 0][(i + mask as usize) % 8] })).collect();
                let (bytes, nodes) = build_raw(&items, 0, as_set, *geo);
                file_ev(log, &bytes, &items, 0, nodes as i64, &format!("two-level {:08b} {:?}", mask, geo));
            }
        }
    }
    // "any builder": the bulk entry points (extend_iter / extend_stream / from_iter of raw, map and
    // set builders), zero values among the others
    for (i, (name, keys)) in ins.iter().filter(|(_, k)| k.len() <= 200 && !k.is_empty()).take(if thorough(tier) { 120 } else { 40 }).enumerate() {
        let set = i % 4 == 3;
        let mut items: Vec<Kv> = if set { keys.iter().map(|k| (k.clone(), 0)).collect() } else { assign(keys.clone(), *pick(&mut r, VAL_MODES), &mut r) };
        if !set {
            // a zero every third key
            for (j, it) in items.iter_mut().enumerate() {
                if (i + j) % 3 == 1 {
                    it.1 = 0;
                }
            }
        }
        let paths: &[&str] = if set { &["extend_iter", "extend_stream_vec", "from_iter", "raw_from_iter", "extend_stream_fst"] }
                             else { &["extend_iter", "raw_extend_iter", "extend_stream_vec", "raw_extend_stream", "extend_stream_fst", "from_iter", "raw_from_iter"] };
        let path = paths[i % paths.len()];
        match guard(|| crate::scen_build::build_via(path, &items, set)) {
            Ok(bytes) => file_ev(log, &bytes, &items, 0, -1, &format!("{} through {}", name, path)),
            Err(p) => log.ev(json!({"ev": "Panic", "in": path, "msg": p, "origin": name})),
        }
    }
    // "any builder": one that has rejected calls (duplicates, smaller keys, prefixes) in between
    for (i, (name, keys)) in ins.iter().filter(|(_, k)| k.len() <= 200 && k.len() >= 2).take(if thorough(tier) { 90 } else { 30 }).enumerate() {
        let set = i % 3 == 2;
        let items: Vec<Kv> = if set { keys.iter().map(|k| (k.clone(), 0)).collect() } else { assign(keys.clone(), *pick(&mut r, VAL_MODES), &mut r) };
        match guard(|| crate::scen_build::build_via("insert_with_rejects", &items, set)) {
            Ok(bytes) => file_ev(log, &bytes, &items, 0, -1, &format!("{} with rejected calls in between", name)),
            Err(p) => log.ev(json!({"ev": "Panic", "in": "insert_with_rejects", "msg": p, "origin": name})),
        }
    }
    // "any builder": sets whose keys are offered more than once (a repeat is a no-op that must
    // leave no trace, not even in the key count) ...
    for (i, (name, keys)) in ins.iter().filter(|(_, k)| k.len() <= 200).take(if thorough(tier) { 60 } else { 20 }).enumerate() {
        let mut b = Builder::new_type(Vec::new(), 0).unwrap();
        for (j, k) in keys.iter().enumerate() {
            for _ in 0..(1 + (i + j) % 3) {
                b.add(k).unwrap();
            }
        }
        let bytes = b.into_inner().unwrap();
        let items: Vec<Kv> = keys.iter().map(|k| (k.clone(), 0)).collect();
        file_ev(log, &bytes, &items, 0, -1, &format!("{} as a set with repeated adds", name));
    }
    // ... and one that streams into a sink accepting prefixes and interrupting
    {
        use crate::scen_sink::{build_through, Policy};
        for (i, (name, keys)) in ins.iter().filter(|(_, k)| k.len() <= 200).take(if thorough(tier) { 90 } else { 30 }).enumerate() {
            let items = assign(keys.clone(), *pick(&mut r, VAL_MODES), &mut r);
            let policies = [Policy::Cap(1 + i % 5), Policy::Random { short: 50, intr: 10 }, Policy::IntrAt(i % 9)];
            let policy = policies[i % policies.len()].clone();
            let what = format!("{} through {:?}", name, policy);
            let set = i % 4 == 3;
            let items: Vec<Kv> = if set { items.into_iter().map(|(k, _)| (k, 0)).collect() } else { items };
            match build_through(&items, set, policy, seed + i as u64) {
                Ok(bytes) => file_ev(log, &bytes, &items, 0, -1, &what),
                Err(e) => log.ev(json!({"ev": "Panic", "in": "build_through", "msg": e, "origin": what})),
            }
        }
    }
    for (name, keys) in ins {
        let big = keys.len() > 2000;
        if big && name != "words-10000" && !thorough(tier) {
            continue;
        }
        if keys.len() > 20000 {
            continue; // whole-file validation is for files TLC can hold; larger builds are sampled node-wise
        }
        let keys = if big && !thorough(tier) { keys.into_iter().step_by(5).collect::<Vec<_>>() } else { keys };
        let nmodes = if big || (keys.len() >= 200 && !thorough(tier)) { 1 } else if thorough(tier) { 5 } else { 2 };
        for mi in 0..nmodes {
            let mode = if big { ValMode::Index } else if mi == 0 { ValMode::Boundary } else { *pick(&mut r, VAL_MODES) };
            let items = assign(keys.clone(), mode, &mut r);
            let ty = *pick(&mut r, &[0u64, 1, 7, 255, 256, u64::MAX]);
            let geo = if big { None } else { *pick(&mut r, GEOMETRIES) };
            let (bytes, nodes) = build_raw(&items, ty, false, geo);
            file_ev(log, &bytes, &items, ty, nodes as i64, &format!("{}:{:?}:{:?}", name, mode, geo));
            if mi == 0 && !big {
                let zero: Vec<Kv> = items.iter().map(|(k, _)| (k.clone(), 0)).collect();
                let (bytes, nodes) = build_raw(&zero, ty, true, geo);
                file_ev(log, &bytes, &zero, ty, nodes as i64, &format!("{}:set:{:?}", name, geo));
            }
        }
    }
    // the map / set front ends write type 0
    for _ in 0..4 {
        let items = assign(random_keys(&mut r, 50, 4, 5), ValMode::Random, &mut r);
        let mut mb = fst::MapBuilder::memory();
        for (k, v) in &items {
            mb.insert(k, *v).unwrap();
        }
        file_ev(log, &mb.into_inner().unwrap(), &items, 0, -1, "MapBuilder");
        let zero: Vec<Kv> = items.iter().map(|(k, _)| (k.clone(), 0)).collect();
        let mut sb = fst::SetBuilder::memory();
        for (k, _) in &zero {
            sb.insert(k).unwrap();
        }
        file_ev(log, &sb.into_inner().unwrap(), &zero, 0, -1, "SetBuilder");
    }
    nodes_h3(log, &mut r, tier);
}

/// Hook H3: the real node encoder at arbitrary addresses, so that every delta width (1-4 bytes)
/// is reached without multi-gigabyte files.
pub fn nodes_h3(log: &mut Log, r: &mut StdRng, tier: &str) {
    let addrs: &[usize] = &[20, 255 + 16, 256 + 16, 300, 65535 + 16, 65536 + 16, 70_000, 16_777_215 + 16, 16_777_216 + 16, 20_000_000, 1_000_000_000];
    let n = if thorough(tier) { 3000 } else { 600 };
    for i in 0..n {
        let addr = *pick(r, addrs) + r.gen_range(0, 3);
        let nt = *pick(r, &[0usize, 1, 1, 1, 2, 3, 5, 31, 32, 33, 34, 63, 64, 65, 255, 256]);
        let is_final = r.gen_range(0, 2) == 0 || nt == 0;
        let outs = *pick(r, &[0u8, 1, 2]); // none, some, boundary
        let mut inputs: Vec<u8> = if nt == 256 {
            (0..=255).collect()
        } else {
            let mut v: Vec<u8> = (0..=255).collect();
            for j in 0..nt {
                let k = r.gen_range(j, 256);
                v.swap(j, k);
            }
            v.truncate(nt);
            v.sort();
            v
        };
        if nt == 1 && r.gen_range(0, 2) == 0 {
            inputs[0] = *pick(r, &[b'a', b'e', b't', 0, 255, b'Z']);
        }
        let last_addr = if r.gen_range(0, 2) == 0 { addr - 1 } else { 1 };
        let mut trans = vec![];
        for &inp in &inputs {
            let tgt = match r.gen_range(0, 6) {
                0 => 0,
                1 => addr - 1,
                2 => addr - std::cmp::min(addr - 16, r.gen_range(1, 256)),
                3 => addr - std::cmp::min(addr - 16, r.gen_range(256, 65536)),
                4 => addr - std::cmp::min(addr - 16, r.gen_range(65536, 16_777_216)),
                _ => 16 + r.gen_range(0, addr - 16),
            };
            let out = match outs {
                0 => 0,
                1 => {
                    if r.gen_range(0, 2) == 0 {
                        0
                    } else {
                        r.gen_range(1, 1000)
                    }
                }
                _ => BOUNDARY_VALUES[r.gen_range(0, BOUNDARY_VALUES.len())],
            };
            trans.push((inp, out, tgt));
        }
        let fout = if is_final && outs > 0 { BOUNDARY_VALUES[r.gen_range(0, BOUNDARY_VALUES.len())] } else { 0 };
        let node = VerifNode { is_final, final_output: fout, trans: trans.clone() };
        if node.is_final && node.trans.is_empty() && node.final_output == 0 {
            continue;
        }
        let bytes = match guard(|| verif::compile_node(&node, last_addr, addr)) {
            Ok(b) => b,
            Err(p) => {
                log.ev(json!({"ev": "Panic", "in": "compile_node", "msg": p, "i": i}));
                continue;
            }
        };
        let pad = 16 + r.gen_range(0, 4);
        let jt: Vec<Value> = trans
            .iter()
            .map(|&(inp, out, tgt)| json!([inp, ju(out), if tgt == 0 { 0 } else { addr - tgt }]))
            .collect();
        log.ev(json!({"ev": "Node", "pad": pad, "bytes": jb(&bytes), "final": is_final, "fout": ju(fout), "trans": jt,
                      "addr": ju(addr as u64), "last": ju(last_addr as u64)}));
    }
}

fn jopen<T>(r: &Result<T, fst::Error>) -> Value {
    jres(r)
}

/// One arbitrary byte string through Fst::new, the accessors and verify().
pub fn raw_ev(log: &mut Log, bytes: &[u8], origin: &str, via: &str) {
    raw_ev_from(log, bytes, origin, via, None)
}

/// ... `base`: the valid image that `map_data` starts from (default: a one-key map).
pub fn raw_ev_from(log: &mut Log, bytes: &[u8], origin: &str, via: &str, base: Option<&[u8]>) {
    let _ = crate::alloc::take_huge();
    let r = guard(|| -> (Value, Value) {
        macro_rules! probe {
            ($fst:expr) => {{
                match $fst {
                    Ok(f) => {
                        let v = f.verify();
                        (jok(), json!({"size": jn(f.size()), "ty": ju(f.fst_type()), "len": ju(f.len() as u64), "empty": f.is_empty(), "verify": jres(&v), "as_bytes": f.as_bytes().len(), "to_vec": f.to_vec().len()}))
                    }
                    Err(e) => (jopen::<()>(&Err(e)), json!({})),
                }
            }};
        }
        match via {
            "vec" => probe!(Fst::new(bytes.to_vec())),
            "cow" => probe!(Fst::new(std::borrow::Cow::Borrowed(bytes))),
            "arc" => probe!(Fst::new(std::sync::Arc::<[u8]>::from(bytes))),
            // the bytes arrive through map_data of a valid FST: still an opening of *these* bytes
            "map_data" | "map_data_map" | "map_data_set" => {
                let valid = match base {
                    Some(v) => v.to_vec(),
                    None => {
                        let mut b = Builder::memory();
                        b.insert(b"k", 7).unwrap();
                        b.into_inner().unwrap()
                    }
                };
                match via {
                    "map_data" => probe!(Fst::new(valid).unwrap().map_data(|_| bytes.to_vec())),
                    "map_data_map" => match fst::Map::new(valid).unwrap().map_data(|_| bytes.to_vec()) {
                        Ok(m) => {
                            let f = m.as_fst();
                            let v = f.verify();
                            (jok(), json!({"size": jn(f.size()), "ty": ju(f.fst_type()), "len": ju(m.len() as u64), "empty": m.is_empty(), "verify": jres(&v), "as_bytes": f.as_bytes().len(), "to_vec": f.to_vec().len()}))
                        }
                        Err(e) => (jopen::<()>(&Err(e)), json!({})),
                    },
                    _ => match fst::Set::new(valid).unwrap().map_data(|_| bytes.to_vec()) {
                        Ok(m) => {
                            let f = m.as_fst();
                            let v = f.verify();
                            (jok(), json!({"size": jn(f.size()), "ty": ju(f.fst_type()), "len": ju(m.len() as u64), "empty": m.is_empty(), "verify": jres(&v), "as_bytes": f.as_bytes().len(), "to_vec": f.to_vec().len()}))
                        }
                        Err(e) => (jopen::<()>(&Err(e)), json!({})),
                    },
                }
            }
            "map" => match fst::Map::new(bytes) {
                Ok(m) => {
                    let f = m.as_fst();
                    let v = f.verify();
                    (jok(), json!({"size": jn(f.size()), "ty": ju(f.fst_type()), "len": ju(m.len() as u64), "empty": m.is_empty(), "verify": jres(&v), "as_bytes": f.as_bytes().len(), "to_vec": f.to_vec().len()}))
                }
                Err(e) => (jopen::<()>(&Err(e)), json!({})),
            },
            "set" => match fst::Set::new(bytes) {
                Ok(m) => {
                    let f = m.as_fst();
                    let v = f.verify();
                    (jok(), json!({"size": jn(f.size()), "ty": ju(f.fst_type()), "len": ju(m.len() as u64), "empty": m.is_empty(), "verify": jres(&v), "as_bytes": f.as_bytes().len(), "to_vec": f.to_vec().len()}))
                }
                Err(e) => (jopen::<()>(&Err(e)), json!({})),
            },
            // the image starts at a chosen address modulo 64 (an FST opened in place inside a larger buffer)
            v if v.starts_with("slice@") => {
                let k: usize = v[6..].parse().unwrap();
                let mut buf = vec![0u8; bytes.len() + 128];
                let off = (64 + k - (buf.as_ptr() as usize % 64)) % 64;
                buf[off..off + bytes.len()].copy_from_slice(bytes);
                probe!(Fst::new(&buf[off..off + bytes.len()]))
            }
            _ => probe!(Fst::new(bytes)),
        }
    });
    // an absurd allocation request during the probe is an outcome of its own
    let huge = crate::alloc::take_huge();
    if huge != 0 {
        log.ev(json!({"ev": "Panic", "in": "Raw", "origin": origin, "msg": format!("allocation of {} bytes requested", huge), "bytes": jb(bytes)}));
        return;
    }
    match r {
        Ok((open, rest)) => {
            let mut ev = json!({"ev": "Raw", "origin": origin, "built": origin.starts_with("built"), "via": via, "bytes": jb(bytes), "open": open});
            if let Value::Object(m) = rest {
                for (k, v) in m {
                    ev[k] = v;
                }
            }
            log.ev(ev);
        }
        Err(p) => log.ev(json!({"ev": "Panic", "in": "Raw", "origin": origin, "msg": p, "bytes": jb(bytes)})),
    }
}

fn le8(v: u64) -> Vec<u8> {
    v.to_le_bytes().to_vec()
}

const VIAS: &[&str] = &["slice", "vec", "cow", "arc", "map", "set", "map_data", "map_data_map", "map_data_set"];

/// Exhaustive headers / footers over boundary values for lengths 0..=64.
pub fn header_footer_space(log: &mut Log, r: &mut StdRng, tier: &str) {
    // (supported versions in the low byte with any other byte of the word set: still unsupported)
    let versions: &[u64] = &[0, 1, 2, 3, 4, 255, 256, 1 << 32, u64::MAX, 259, 65539, (1 << 24) + 1, (1 << 32) + 3, (1 << 32) + 1, (1 << 40) + 2,
                            (1 << 48) + 3, (1 << 56) + 3, (1 << 63) + 3];
    let maxlen = 64;
    for len in 0..=maxlen {
        for &v in versions {
            // roots: 0, the plausible one for each version, off-by-one, beyond the end, huge
            let roots: Vec<u64> = vec![0, (len as u64).wrapping_sub(17), (len as u64).wrapping_sub(21), (len as u64).wrapping_sub(20), len as u64, len as u64 + 5, 1 << 40, u64::MAX];
            let nroots = if thorough(tier) { roots.len() } else { 4 };
            for ri in 0..nroots {
                let root = if thorough(tier) { roots[ri] } else { *pick(r, &roots) };
                let nkeys = *pick(r, &[0u64, 1, 3, u64::MAX]);
                let mut b: Vec<u8> = vec![];
                b.extend(le8(v));
                b.extend(le8(*pick(r, &[0u64, 9, u64::MAX])));
                while b.len() < len {
                    b.push(r.gen());
                }
                b.truncate(len);
                // place a footer if there is room
                let foot = if v >= 3 { 20 } else { 16 };
                if len >= 16 + foot {
                    let end = len - if v >= 3 { 4 } else { 0 };
                    b[end - 16..end - 8].copy_from_slice(&le8(nkeys));
                    b[end - 8..end].copy_from_slice(&le8(root));
                }
                raw_ev(log, &b, "header-footer", *pick(r, VIAS));
            }
        }
    }
}

pub fn valid_small_fsts(r: &mut StdRng, n: usize) -> Vec<(Vec<u8>, Vec<Kv>)> {
    let mut v = vec![];
    v.push((build_raw(&[], 0, false, None).0, vec![]));
    let only_empty = vec![(vec![], 0u64)];
    v.push((build_raw(&only_empty, 0, false, None).0, only_empty));
    let only_empty7 = vec![(vec![], 7u64)];
    v.push((build_raw(&only_empty7, 3, false, None).0, only_empty7));
    for _ in 0..n {
        let nk = *pick(r, &[1usize, 2, 3, 6, 12]);
        let items = assign(random_keys(r, nk, 3, 4), *pick(r, VAL_MODES), r);
        v.push((build_raw(&items, *pick(r, &[0u64, 1]), false, None).0, items));
    }
    v
}

pub fn c20(log: &mut Log, seed: u64, tier: &str) {
    let mut r = rng(seed, 20);
    header_footer_space(log, &mut r, tier);
    // random strings
    let nrand = if thorough(tier) { 4000 } else { 800 };
    for _ in 0..nrand {
        let len = *pick(&mut r, &[0usize, 1, 7, 8, 15, 16, 31, 32, 35, 36, 37, 40, 64, 100, 300]);
        let mut b: Vec<u8> = (0..len).map(|_| r.gen()).collect();
        if len >= 8 && r.gen_range(0, 4) != 0 {
            let v = *pick(&mut r, &[1u64, 2, 3]);
            b[..8].copy_from_slice(&le8(v));
        }
        raw_ev(log, &b, "random", *pick(&mut r, VIAS));
    }
    rechecksummed(log, &mut r, tier);
    // every length 0..=40 through every way of getting bytes into an Fst
    for len in 0..=40usize {
        for via in VIAS {
            raw_ev(log, &vec![0u8; len], "zeros", via);
            let mut b: Vec<u8> = (0..len).map(|_| r.gen()).collect();
            if len >= 8 {
                b[..8].copy_from_slice(&le8(*pick(&mut r, &[1u64, 2, 3])));
            }
            raw_ev(log, &b, "short", via);
        }
    }
    // every total length in a range under a version-3 header with a plausible root address: the
    // checksum routine sees every length modulo its block sizes
    for len in 36..=(if thorough(tier) { 1100usize } else { 330 }) {
        let mut b: Vec<u8> = (0..len).map(|_| r.gen()).collect();
        b[..8].copy_from_slice(&le8(3));
        b[len - 12..len - 4].copy_from_slice(&le8(17));
        raw_ev(log, &b, "length-sweep", VIAS[len % VIAS.len()]);
        if len % 3 == 0 && rechecksum(&mut b) {
            raw_ev(log, &b, "length-sweep-rechecksummed", VIAS[(len / 3) % VIAS.len()]);
        }
    }
    // boundary values of the stored checksum field: on valid files, on a version-3 header followed
    // by zeros, on random bodies
    for (i, (bytes, _items)) in valid_small_fsts(&mut r, 6).into_iter().enumerate() {
        let n = bytes.len();
        if n < 36 {
            continue;
        }
        for (j, field) in [0u32, 1, 0x8000_0000, 0xFFFF_FFFF, 0xA282_EAD8].iter().enumerate() {
            let mut m = bytes.clone();
            m[n - 4..].copy_from_slice(&field.to_le_bytes());
            raw_ev(log, &m, "checksum-field", VIAS[(i + j) % VIAS.len()]);
        }
    }
    for len in (36..=100usize).step_by(if thorough(tier) { 1 } else { 3 }) {
        for (j, field) in [0u32, 1, 0xFFFF_FFFF].iter().enumerate() {
            let mut b = vec![0u8; len];
            b[..8].copy_from_slice(&le8(3));
            b[len - 4..].copy_from_slice(&field.to_le_bytes());
            raw_ev(log, &b, "v3-header-zeros", VIAS[(len + j) % VIAS.len()]);
            let mut c: Vec<u8> = (0..len).map(|_| r.gen()).collect();
            c[..8].copy_from_slice(&le8(3));
            c[len - 12..len - 4].copy_from_slice(&le8(17));
            c[len - 4..].copy_from_slice(&field.to_le_bytes());
            raw_ev(log, &c, "checksum-field-random-body", VIAS[(len + j + 1) % VIAS.len()]);
        }
    }
    // every truncation and single-byte mutations of valid FSTs
    let nf = if thorough(tier) { 24 } else { 8 };
    for (bytes, _items) in valid_small_fsts(&mut r, nf) {
        for cut in 0..=bytes.len() {
            raw_ev(log, &bytes[..cut], "truncation", *pick(&mut r, VIAS));
        }
        for pos in 0..bytes.len() {
            let nmut = if thorough(tier) { 4 } else { 2 };
            for _ in 0..nmut {
                let mut m = bytes.clone();
                m[pos] = match r.gen_range(0, 4) {
                    0 => m[pos] ^ 1,
                    1 => m[pos] ^ 0x80,
                    2 => !m[pos],
                    _ => r.gen(),
                };
                raw_ev(log, &m, "mutation", *pick(&mut r, VIAS));
            }
        }
    }
}

/// Give `bytes` (version 3, >= 36 bytes) a checksum that matches its contents, using the crate's
/// own CRC as reported by verify() (validated against the specification by C08).
pub fn rechecksum(bytes: &mut Vec<u8>) -> bool {
    let n = bytes.len();
    if n < 36 {
        return false;
    }
    let got = match guard(|| Fst::new(&bytes[..]).map(|f| f.verify())) {
        Ok(Ok(Err(fst::Error::Fst(fst::raw::Error::ChecksumMismatch { got, .. })))) => got,
        Ok(Ok(Ok(()))) => return true,
        _ => return false,
    };
    bytes[n - 4..].copy_from_slice(&got.to_le_bytes());
    true
}

/// Files whose checksum is consistent but whose structure is not: the footer or the body is
/// altered and the checksum recomputed, so verify() reaches whatever it does after a match.
pub fn rechecksummed(log: &mut Log, r: &mut StdRng, tier: &str) {
    let nf = if thorough(tier) { 24 } else { 8 };
    for (bytes, _items) in valid_small_fsts(r, nf) {
        let n = bytes.len();
        if n < 36 {
            continue;
        }
        let end = n - 4;
        let roots: Vec<u64> = vec![0, 1, 15, 16, 17, (n as u64) - 21, (n as u64) - 20, (n as u64) - 5, n as u64, n as u64 + 1, n as u64 + 1000, 1 << 31, 1 << 40, u64::MAX - 20, u64::MAX];
        for root in roots {
            let mut m = bytes.clone();
            m[end - 8..end].copy_from_slice(&le8(root));
            if rechecksum(&mut m) {
                raw_ev(log, &m, "rechecksummed-root", *pick(r, VIAS));
            }
        }
        for nkeys in &[0u64, 1, 1000, u64::MAX] {
            let mut m = bytes.clone();
            m[end - 16..end - 8].copy_from_slice(&le8(*nkeys));
            if rechecksum(&mut m) {
                raw_ev(log, &m, "rechecksummed-len", *pick(r, VIAS));
            }
        }
        for _ in 0..(if thorough(tier) { 40 } else { 10 }) {
            let mut m = bytes.clone();
            let pos = r.gen_range(8, end);
            m[pos] = r.gen();
            if rechecksum(&mut m) {
                raw_ev(log, &m, "rechecksummed-body", *pick(r, VIAS));
            }
        }
    }
    // random bodies under a version-3 header with a matching checksum
    for _ in 0..(if thorough(tier) { 400 } else { 80 }) {
        let len = *pick(r, &[36usize, 37, 40, 57, 64, 100]);
        let mut b: Vec<u8> = (0..len).map(|_| r.gen()).collect();
        b[..8].copy_from_slice(&le8(3));
        if r.gen_range(0, 2) == 0 {
            let root = *pick(r, &[0u64, 17, len as u64 - 21, len as u64, 1 << 33]);
            b[len - 12..len - 4].copy_from_slice(&le8(root));
        }
        if rechecksum(&mut b) {
            raw_ev(log, &b, "rechecksummed-random", *pick(r, VIAS));
        }
    }
}

/// The crate's own CRC of arbitrary data: wrap the data in a version-3 frame and read the `got`
/// field of the ChecksumMismatch that verify() reports (or recover it when verification passes).
pub fn sum_ev(log: &mut Log, data_tail: &[u8]) {
    // data = 8-byte version 3 header + tail (so that Fst::new accepts it) ; file = data + 4 bytes
    let mut file: Vec<u8> = le8(3);
    file.extend_from_slice(data_tail);
    while file.len() < 32 {
        file.push(0);
    }
    // Fst::new only rejects root == 0 with a wrong total length: keep the data's own last eight
    // bytes as the root address (so that every byte of the data is arbitrary) unless they are zero
    let end = file.len();
    if file[end - 8..end].iter().all(|&b| b == 0) {
        file[end - 8..end].copy_from_slice(&le8(5));
    }
    let data = file.clone();
    file.extend_from_slice(&[0x5A, 0x5A, 0x5A, 0x5A]);
    let r = guard(|| Fst::new(&file[..]).map(|f| f.verify()));
    match r {
        Ok(Ok(v)) => {
            let got: Option<u64> = match &v {
                Ok(()) => Some(0x5A5A5A5A),
                Err(fst::Error::Fst(fst::raw::Error::ChecksumMismatch { got, .. })) => Some(*got as u64),
                _ => None,
            };
            match got {
                Some(g) => log.ev(json!({"ev": "Sum", "data": jb(&data), "got": ju(g)})),
                None => log.ev(json!({"ev": "Panic", "in": "Sum", "msg": "unexpected verify result"})),
            }
        }
        Ok(Err(e)) => log.ev(json!({"ev": "Panic", "in": "Sum", "msg": format!("open failed: {:?}", e)})),
        Err(p) => log.ev(json!({"ev": "Panic", "in": "Sum", "msg": p})),
    }
}

pub fn c08(log: &mut Log, seed: u64, tier: &str) {
    let mut r = rng(seed, 8);
    // (1) built FSTs verify and carry the right checksum: File events (checksum is part of FileBegin)
    let ins = inputs(&mut r, tier, false);
    for (name, keys) in ins.iter().filter(|(_, k)| k.len() <= 600).take(if thorough(tier) { 200 } else { 60 }) {
        let items = assign(keys.clone(), *pick(&mut r, VAL_MODES), &mut r);
        let (bytes, nodes) = build_raw(&items, 0, false, *pick(&mut r, GEOMETRIES));
        raw_ev(log, &bytes, &format!("built:{}", name), "slice");
        // ... wherever in memory the image starts (verification reads it in place)
        let k0 = r.gen_range(0, 64);
        for k in [k0, (k0 + 1 + 2 * r.gen_range(0, 8)) % 64].iter() {
            raw_ev(log, &bytes, &format!("built:{}", name), &format!("slice@{}", k));
        }
        if bytes.len() < 3000 {
            file_ev(log, &bytes, &items, 0, nodes as i64, name);
        }
    }
    // (1a) very many small builds: the checksum value itself sweeps its range (a zero top byte
    // occurs once in 256 builds), through the three kinds of builder and two ways of finishing
    for i in 0..(if thorough(tier) { 12000usize } else { 3000 }) {
        let key = format!("k{:05}", i);
        let bytes = match i % 3 {
            0 => {
                let mut b = Builder::memory();
                b.insert(&key, i as u64).unwrap();
                b.into_inner().unwrap()
            }
            1 => {
                let mut out = Vec::new();
                let mut b = fst::MapBuilder::new(&mut out).unwrap();
                b.insert(&key, (i as u64) << 20).unwrap();
                b.finish().unwrap();
                out
            }
            _ => {
                let mut b = fst::SetBuilder::memory();
                b.insert(&key).unwrap();
                b.into_inner().unwrap()
            }
        };
        raw_ev(log, &bytes, "built:sweep", "slice");
    }
    // (1a'') images of many sizes (below and above one and several KiB) at every start address
    // modulo 16 and a few modulo 64
    {
        let sizes: &[usize] = if thorough(tier) { &[3, 20, 60, 100, 140, 180, 260, 400, 700, 1500] } else { &[3, 60, 140, 260, 700] };
        for (j, &nk) in sizes.iter().enumerate() {
            let mut b2 = Builder::memory();
            let mut ks: Vec<String> = (0..nk).map(|i| format!("{:06}x{}", (i * 7919) % 999983, i % 7)).collect();
            ks.sort();
            ks.dedup();
            for (i, k) in ks.iter().enumerate() {
                b2.insert(k, (i as u64) << (j * 5)).unwrap();
            }
            let bytes = b2.into_inner().unwrap();
            for k in 0..16usize {
                raw_ev(log, &bytes, "built:placed", &format!("slice@{}", k));
            }
            for k in [17usize, 31, 33, 47, 63].iter() {
                raw_ev(log, &bytes, "built:placed", &format!("slice@{}", k));
            }
        }
    }
    // (1a') a wide root of every fan-out 33..256 (the 256-byte index is the one long write of a
    // build; it starts at every offset modulo the checksum's block sizes), as set and as map
    for f in 33..=256usize {
        let mut b = Builder::memory();
        for x in 0..f {
            if f % 2 == 0 {
                b.add(&[x as u8]).unwrap();
            } else {
                b.insert(&[x as u8], (x as u64) * 259).unwrap();
            }
        }
        raw_ev(log, &b.into_inner().unwrap(), "built:fanout", "slice");
        // ... and below a prefix of 0..63 bytes
        let mut b = Builder::memory();
        let mut key = vec![b'p'; f % 64];
        key.push(0);
        for x in 0..40u8 {
            *key.last_mut().unwrap() = x;
            b.add(&key).unwrap();
        }
        raw_ev(log, &b.into_inner().unwrap(), "built:fanout-prefix", "slice");
    }
    // (1b) ... independent of how the data was chunked while being written: the same builds through
    // sinks that accept prefixes and interrupt (every byte still reaches the sink exactly once)
    use crate::scen_sink::{build_through, Policy};
    for (i, (name, keys)) in ins.iter().filter(|(_, k)| k.len() <= 300).take(if thorough(tier) { 120 } else { 40 }).enumerate() {
        let items = assign(keys.clone(), *pick(&mut r, VAL_MODES), &mut r);
        let policies = [Policy::Cap(1 + i % 9), Policy::Random { short: 40, intr: 15 }, Policy::IntrAt(i % 7), Policy::ShortAt(i % 11),
                        Policy::Random { short: 0, intr: 30 }];
        let policy = policies[i % policies.len()].clone();
        let what = format!("{} through {:?}", name, policy);
        match build_through(&items, false, policy, seed + i as u64) {
            Ok(bytes) => {
                raw_ev(log, &bytes, &format!("built:{}", what), "slice");
                if bytes.len() < 3000 {
                    file_ev(log, &bytes, &items, 0, -1, &what);
                }
            }
            Err(e) => log.ev(json!({"ev": "Panic", "in": "build_through", "msg": e, "origin": what})),
        }
    }
    // (1c) ... and through sinks that hand bytes on only when they are flushed (a staging writer, a
    // BufWriter whose inner writer is looked at without dropping it): what has been handed on when
    // finish / into_inner returns is the image
    {
        use std::cell::RefCell;
        use std::rc::Rc;
        struct Staged {
            staging: Vec<u8>,
            committed: Rc<RefCell<Vec<u8>>>,
        }
        impl std::io::Write for Staged {
            fn write(&mut self, buf: &[u8]) -> std::io::Result<usize> {
                self.staging.extend_from_slice(buf);
                Ok(buf.len())
            }
            fn flush(&mut self) -> std::io::Result<()> {
                self.committed.borrow_mut().extend_from_slice(&self.staging);
                self.staging.clear();
                Ok(())
            }
        }
        for (i, (name, keys)) in ins.iter().filter(|(_, k)| k.len() <= 300).take(if thorough(tier) { 60 } else { 24 }).enumerate() {
            let items = assign(keys.clone(), *pick(&mut r, VAL_MODES), &mut r);
            let committed = Rc::new(RefCell::new(vec![]));
            let staged = Staged { staging: vec![], committed: committed.clone() };
            let how = ["map finish", "map into_inner", "set finish", "raw into_inner", "raw finish", "bufwriter into_inner"][i % 6];
            let res = guard(|| -> Result<(), fst::Error> {
                match i % 6 {
                    0 | 1 => {
                        let mut b = fst::MapBuilder::new(staged)?;
                        for (k, v) in &items {
                            b.insert(k, *v)?;
                        }
                        if i % 6 == 0 { b.finish() } else { b.into_inner().map(|w| std::mem::forget(w)) }
                    }
                    2 => {
                        let mut b = fst::SetBuilder::new(staged)?;
                        for (k, _) in &items {
                            b.insert(k)?;
                        }
                        b.finish()
                    }
                    3 | 4 => {
                        let mut b = Builder::new(staged)?;
                        for (k, v) in &items {
                            b.insert(k, *v)?;
                        }
                        if i % 6 == 3 { b.into_inner().map(|w| std::mem::forget(w)) } else { b.finish() }
                    }
                    _ => {
                        // the BufWriter is kept alive (not dropped, not flushed again) while the image is read
                        let mut b = Builder::new(std::io::BufWriter::with_capacity(7 + i, staged))?;
                        for (k, v) in &items {
                            b.insert(k, *v)?;
                        }
                        b.into_inner().map(|w| std::mem::forget(w))
                    }
                }
            });
            let what = format!("{} through a staging sink ({})", name, how);
            match res {
                Ok(Ok(())) => {
                    let bytes = committed.borrow().clone();
                    raw_ev(log, &bytes, &format!("built:{}", what), "slice");
                }
                Ok(Err(e)) => log.ev(json!({"ev": "Panic", "in": "staged build", "msg": format!("{:?}", e), "origin": what})),
                Err(p) => log.ev(json!({"ev": "Panic", "in": "staged build", "msg": p, "origin": what})),
            }
        }
    }
    // (2) the crate's CRC of arbitrary data for lengths across the 16-byte fast path boundary
    let lens: Vec<usize> = (0..=80).chain(vec![95, 96, 97, 127, 128, 129, 255, 256, 257, 1000, 1023, 1024, 1025, 4095, 4096]).collect();
    for &n in &lens {
        for pat in 0..(if thorough(tier) { 6 } else { 2 }) {
            let tail: Vec<u8> = (0..n)
                .map(|i| match pat {
                    0 => r.gen(),
                    1 => 0xFF,
                    2 => 0,
                    3 => (i * 31 + 7) as u8,
                    _ => r.gen(),
                })
                .collect();
            sum_ev(log, &tail);
        }
    }
    // (3) corruption is never certified: every position of small FSTs x replacement values, bursts
    let nf = if thorough(tier) { 16 } else { 5 };
    let mut nraw = 0usize;
    // ... first over files of 17 consecutive sizes (every residue of the checksum's block size)
    for extra in 0..17usize {
        let mut b = Builder::memory();
        let mut key = vec![b'a'; 1 + extra];
        key[0] = b'k';
        b.insert(&key, 0x0102_0304).unwrap();
        let bytes = b.into_inner().unwrap();
        for pos in 0..bytes.len() {
            for v in [bytes[pos] ^ 1, bytes[pos] ^ 0x80, !bytes[pos], bytes[pos].wrapping_add(0x55)].iter() {
                if *v == bytes[pos] {
                    continue;
                }
                let mut m = bytes.clone();
                m[pos] = *v;
                nraw += 1;
                raw_ev_from(log, &m, "corrupt1-sizes", VIAS[nraw % VIAS.len()], Some(&bytes));
            }
        }
    }
    for (bytes, _items) in valid_small_fsts(&mut r, nf) {
        if bytes.len() > 160 {
            continue;
        }
        for pos in 0..bytes.len() {
            let vals: Vec<u8> = if thorough(tier) { (0..=255).collect() } else { vec![bytes[pos] ^ 1, bytes[pos] ^ 0x80, !bytes[pos], r.gen()] };
            for v in vals {
                if v == bytes[pos] {
                    continue;
                }
                let mut m = bytes.clone();
                m[pos] = v;
                nraw += 1;
                raw_ev_from(log, &m, "corrupt1", VIAS[nraw % VIAS.len()], Some(&bytes));
            }
            // bursts of up to 4 bytes
            for blen in 2..=4 {
                if pos + blen <= bytes.len() {
                    let mut m = bytes.clone();
                    for j in 0..blen {
                        m[pos + j] ^= r.gen_range(1, 256) as u8;
                    }
                    nraw += 1;
                    raw_ev_from(log, &m, "burst", VIAS[nraw % VIAS.len()], Some(&bytes));
                }
            }
        }
    }
}

/// C10 (second half): opening classes over header space is shared with C20; here: files of every
/// supported version produced by the specification's encoder are replayed (see replay.rs).
pub fn c10_raw(log: &mut Log, seed: u64, tier: &str) {
    let mut r = rng(seed, 10);
    header_footer_space(log, &mut r, tier);
}

/// The reader's node-level view of a file: every node reachable from the root as the public
/// `raw::Node` API presents it (C10, extras).  TLC compares it with FstFormat!DecodeNode.
pub fn view_ev(log: &mut Log, bytes: &[u8], origin: &str) {
    let got = guard(|| {
        let fst = match Fst::new(bytes.to_vec()) {
            Ok(f) => f,
            Err(_) => return None,
        };
        let root = fst.root().addr();
        let mut seen = std::collections::BTreeSet::new();
        let mut todo = vec![root];
        let mut nodes = vec![];
        while let Some(a) = todo.pop() {
            if !seen.insert(a) {
                continue;
            }
            let n = fst.node(a);
            let mut trans = vec![];
            for (i, t) in n.transitions().enumerate() {
                let t2 = n.transition(i);
                assert!(t2.inp == t.inp && t2.out == t.out && t2.addr == t.addr && n.transition_addr(i) == t.addr, "transition(i) differs from transitions()");
                trans.push(json!([t.inp, ju(t.out.value()), jn(t.addr)]));
                todo.push(t.addr);
            }
            let find: Vec<Value> = (0..=255u8).filter_map(|b| n.find_input(b).map(|i| json!([b, jn(i)]))).collect();
            nodes.push(json!({"addr": jn(n.addr()), "final": n.is_final(), "fout": ju(n.final_output().value()), "len": jn(n.len()),
                "empty": n.is_empty(), "trans": trans, "find": find, "slice": jb(n.as_slice()), "state": n.state()}));
        }
        Some((root, nodes, fst.len(), fst.size(), fst.fst_type()))
    });
    match got {
        Ok(Some((root, nodes, len, size, ty))) => log.ev(json!({"ev": "View", "origin": origin, "bytes": jb(bytes), "root": jn(root), "nodes": nodes,
            "len": jn(len), "size": jn(size), "ty": ju(ty)})),
        Ok(None) => {}
        Err(p) => log.ev(json!({"ev": "Panic", "in": "View", "origin": origin, "msg": p, "bytes": jb(bytes)})),
    }
}

/// Views of the specification's own files (versions 1, 2, 3) and of built files.
pub fn c10_view(log: &mut Log, files: &str, seed: u64, tier: &str) {
    let mut r = rng(seed, 1010);
    if !files.is_empty() {
        let text = std::fs::read_to_string(files).unwrap_or_else(|e| {
            eprintln!("cannot read {}: {}", files, e);
            std::process::exit(2)
        });
        for line in text.lines().filter(|l| !l.trim().is_empty()) {
            let v: Value = serde_json::from_str(line).unwrap_or_else(|e| {
                eprintln!("bad replay line: {}", e);
                std::process::exit(2)
            });
            let bytes: Vec<u8> = v["bytes"].as_array().unwrap().iter().map(|x| x.as_u64().unwrap() as u8).collect();
            view_ev(log, &bytes, &format!("spec-encoded v{}", v["version"]));
        }
    }
    for (name, keys) in inputs(&mut r, tier, true) {
        if keys.len() > 600 {
            continue;
        }
        let mode = *pick(&mut r, VAL_MODES);
        let items = assign(keys, mode, &mut r);
        let geo = *pick(&mut r, GEOMETRIES);
        let (bytes, _) = build_raw(&items, 0, false, geo);
        view_ev(log, &bytes, &format!("built {}:{:?}", name, mode));
    }
}

pub fn _unused(_: &Sess) {}
