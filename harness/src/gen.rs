//! Input generators: directed shapes no small scope contains, random maps, corpora.

use crate::common::*;
use rand::rngs::StdRng;
use rand::Rng;

/// How values are assigned to a sorted key list.
#[derive(Clone, Copy, Debug)]
pub enum ValMode {
    Zero,
    Index,
    IndexFrom(u64),
    Length,
    Random,
    Boundary,
    Decreasing,
    Constant(u64),
    Max,
    /// strictly increasing with random gaps (get_key)
    IncGaps,
    /// strictly increasing, huge steps
    IncHuge,
    /// about half of the values are zero, the others small and unordered
    Holes,
}

pub const BOUNDARY_VALUES: &[u64] = &[
    0,
    1,
    0xFF,
    0x100,
    0xFFFF,
    0x1_0000,
    0xFF_FFFF,
    0x100_0000,
    0xFFFF_FFFF,
    0x1_0000_0000,
    0xFF_FFFF_FFFF,
    0x100_0000_0000,
    0xFFFF_FFFF_FFFF,
    0x1_0000_0000_0000,
    0xFF_FFFF_FFFF_FFFF,
    0x100_0000_0000_0000,
    u64::MAX - 1,
    u64::MAX,
];

pub fn assign(keys: Vec<Vec<u8>>, mode: ValMode, r: &mut StdRng) -> Vec<Kv> {
    let n = keys.len() as u64;
    let mut acc: u64 = 0;
    keys.into_iter()
        .enumerate()
        .map(|(i, k)| {
            let i = i as u64;
            let v = match mode {
                ValMode::Zero => 0,
                ValMode::Index => i,
                ValMode::IndexFrom(b) => b + i,
                ValMode::Length => k.len() as u64,
                ValMode::Random => r.gen::<u64>() >> (r.gen_range(0, 64) as u32),
                ValMode::Boundary => BOUNDARY_VALUES[r.gen_range(0, BOUNDARY_VALUES.len())],
                ValMode::Decreasing => (n - i) * 1000,
                ValMode::Constant(c) => c,
                ValMode::Max => u64::MAX - i,
                ValMode::IncGaps => {
                    acc += 1 + (r.gen::<u64>() >> r.gen_range(40, 64) as u32);
                    acc
                }
                ValMode::IncHuge => {
                    acc += 1 + (u64::MAX / (n + 2));
                    acc
                }
                ValMode::Holes => {
                    if r.gen_range(0, 2) == 0 {
                        0
                    } else {
                        1 + r.gen_range(0, 1000)
                    }
                }
            };
            (k, v)
        })
        .collect()
}

pub fn sort_dedup(mut keys: Vec<Vec<u8>>) -> Vec<Vec<u8>> {
    keys.sort();
    keys.dedup();
    keys
}

/// Random keys over an alphabet of `alpha` bytes (spread over 0..=255), lengths 0..=maxlen.
pub fn random_keys(r: &mut StdRng, n: usize, alpha: usize, maxlen: usize) -> Vec<Vec<u8>> {
    let letters: Vec<u8> = if alpha >= 256 {
        (0..=255).collect()
    } else {
        let mut l: Vec<u8> = (0..alpha).map(|_| r.gen::<u8>()).collect();
        // always mix common and uncommon bytes and the extremes
        if alpha >= 4 {
            l[0] = 0;
            l[1] = 255;
            l[2] = b'a';
            l[3] = b'e';
        }
        l
    };
    let mut keys = vec![];
    for _ in 0..n {
        let len = r.gen_range(0, maxlen + 1);
        keys.push((0..len).map(|_| letters[r.gen_range(0, letters.len())]).collect());
    }
    sort_dedup(keys)
}

/// Keys sharing prefixes and suffixes: stems x endings.
pub fn affix_keys(r: &mut StdRng, stems: usize, endings: usize) -> Vec<Vec<u8>> {
    let alpha = *pick(r, &[2usize, 3, 6]);
    let sl = *pick(r, &[1usize, 2, 5]);
    let el = *pick(r, &[1usize, 2, 4]);
    let st = random_keys(r, stems, 6, sl);
    let en = random_keys(r, endings, alpha, el);
    let mut keys = vec![];
    for s in &st {
        for e in &en {
            if r.gen_range(0, 4) != 0 {
                let mut k = s.clone();
                k.extend_from_slice(e);
                keys.push(k);
            }
        }
    }
    sort_dedup(keys)
}

/// A node with exactly `fan` transitions at depth `depth` below `prefix`,
/// each child optionally continued by a tail; `with_final` makes the node final.
pub fn fanout_keys(prefix: &[u8], fan: usize, with_final: bool, tail: &[u8], first: u8) -> Vec<Vec<u8>> {
    let mut keys = vec![];
    if with_final {
        keys.push(prefix.to_vec());
    }
    for i in 0..fan {
        let b = (first as usize + i) % 256;
        let mut k = prefix.to_vec();
        k.push(b as u8);
        k.extend_from_slice(tail);
        keys.push(k);
    }
    sort_dedup(keys)
}

/// The directed shapes of C01/C02/C09: fan-outs 0,1,2,32,33,255,256, with and without
/// outputs, final and non-final, nested under prefixes, common and uncommon inputs.
pub fn directed_shapes(r: &mut StdRng) -> Vec<(String, Vec<Vec<u8>>)> {
    let mut out: Vec<(String, Vec<Vec<u8>>)> = vec![];
    out.push(("empty".into(), vec![]));
    out.push(("only-empty-key".into(), vec![vec![]]));
    out.push(("single-a".into(), vec![b"a".to_vec()]));
    out.push(("single-ff".into(), vec![vec![0xFF]]));
    out.push(("single-00".into(), vec![vec![0]]));
    out.push(("chain".into(), vec![b"abcdefghij".to_vec()]));
    out.push(("chain-prefixes".into(), (0..=10).map(|n| b"abcdefghij"[..n].to_vec()).collect()));
    for &fan in &[1usize, 2, 3, 31, 32, 33, 34, 63, 64, 65, 127, 128, 254, 255, 256] {
        for &fin in &[false, true] {
            for (ti, tail) in [&b""[..], &b"x"[..], &b"tail"[..]].iter().enumerate() {
                let first = if fan == 256 { 0 } else { r.gen_range(0, 256 - fan) as u8 };
                out.push((
                    format!("fan{}-final{}-tail{}", fan, fin, ti),
                    fanout_keys(b"", fan, fin, tail, first),
                ));
                out.push((
                    format!("fan{}-final{}-tail{}-nested", fan, fin, ti),
                    sort_dedup(
                        fanout_keys(b"pre", fan, fin, tail, first)
                            .into_iter()
                            .chain(vec![b"p".to_vec(), b"q".to_vec(), b"prf".to_vec()])
                            .collect(),
                    ),
                ));
            }
        }
    }
    // the same wide node below several prefixes: equal sub-automata that must be shared
    for &fan in &[2usize, 31, 32, 33, 64, 255, 256] {
        for (ti, tail) in [&b""[..], &b"z"[..]].iter().enumerate() {
            let mut ks = vec![];
            for p in &[&b"a"[..], &b"b"[..], &b"ca"[..]] {
                ks.extend(fanout_keys(p, fan, ti == 1, tail, if fan == 256 { 0 } else { 256 - fan as usize } as u8));
            }
            out.push((format!("twin-fan{}-tail{}", fan, ti), sort_dedup(ks)));
        }
    }
    // two levels of wide nodes
    let mut two = vec![];
    for a in 0..40u8 {
        for b in 0..40u8 {
            two.push(vec![a.wrapping_mul(5), 255 - b]);
        }
    }
    out.push(("two-level-40x40".into(), sort_dedup(two)));
    // all 256 single bytes and all their one-byte extensions by a few bytes
    let mut all = vec![];
    for a in 0..=255u8 {
        all.push(vec![a]);
        for &b in &[0u8, b'a', 0x80, 0xFF] {
            all.push(vec![a, b]);
        }
    }
    out.push(("all-bytes".into(), sort_dedup(all)));
    // long keys
    out.push(("long-300".into(), vec![vec![b'z'; 300]]));
    out.push((
        "long-pair".into(),
        sort_dedup(vec![
            (0..700).map(|i| (i % 251) as u8).collect(),
            (0..700).map(|i| if i == 699 { 7 } else { (i % 251) as u8 }).collect(),
        ]),
    ));
    // a key that is a proper prefix of exactly one longer continuation, recurring below several
    // prefixes (a final state with a single transition that is shareable)
    for (i, (stem, cont)) in [("a", "bc"), ("alk", "ing"), ("0", "1234567"), ("q", "rs")].iter().enumerate() {
        let mut keys = vec![];
        for p in &["x", "y", "zz", "t", "w"][..(2 + i % 4)] {
            let mut k = p.as_bytes().to_vec();
            k.extend_from_slice(stem.as_bytes());
            keys.push(k.clone());
            k.extend_from_slice(cont.as_bytes());
            keys.push(k);
        }
        out.push((format!("final-one-cont-{}", i), sort_dedup(keys)));
    }
    // long shared suffixes under different prefixes (every state of the suffix is shareable)
    for &n in &[95usize, 96, 97, 130, 300] {
        let suffix: Vec<u8> = (0..n).map(|i| b'a' + (i % 23) as u8).collect();
        let mut keys = vec![];
        for p in &["A-", "B-", "Cc-"] {
            let mut k = p.as_bytes().to_vec();
            k.extend_from_slice(&suffix);
            keys.push(k);
        }
        out.push((format!("long-suffix-{}", n), sort_dedup(keys)));
    }
    out.push(("affix".into(), affix_keys(r, 12, 8)));
    out
}

pub const VAL_MODES: &[ValMode] = &[
    ValMode::Holes,
    ValMode::Zero,
    ValMode::Index,
    ValMode::IndexFrom(250),
    ValMode::IndexFrom(65530),
    ValMode::Length,
    ValMode::Random,
    ValMode::Boundary,
    ValMode::Decreasing,
    ValMode::Constant(7),
    ValMode::Constant(u64::MAX),
    ValMode::Max,
    ValMode::IncGaps,
    ValMode::IncHuge,
];

/// Every key over `alpha` of length <= maxlen (the exhaustive small universe).
pub fn universe(alpha: &[u8], maxlen: usize) -> Vec<Vec<u8>> {
    let mut all: Vec<Vec<u8>> = vec![vec![]];
    let mut frontier: Vec<Vec<u8>> = vec![vec![]];
    for _ in 0..maxlen {
        let mut next = vec![];
        for k in &frontier {
            for &a in alpha {
                let mut k2 = k.clone();
                k2.push(a);
                next.push(k2);
            }
        }
        all.extend(next.iter().cloned());
        frontier = next;
    }
    sort_dedup(all)
}

/// Probes around a model for lookups: every key, every proper prefix, one-byte
/// extensions, single-byte substitutions, random strings.
pub fn probes(items: &[Kv], r: &mut StdRng, max: usize) -> Vec<Vec<u8>> {
    let mut p: Vec<Vec<u8>> = vec![vec![]];
    let step = std::cmp::max(1, items.len() * 6 / std::cmp::max(1, max));
    for (i, (k, _)) in items.iter().enumerate() {
        if i % step != 0 {
            continue;
        }
        p.push(k.clone());
        for n in 0..k.len() {
            if k.len() <= 24 || r.gen_range(0, k.len()) < 24 {
                p.push(k[..n].to_vec());
                let mut s = k.clone();
                s[n] = match r.gen_range(0, 3) {
                    0 => s[n].wrapping_add(1),
                    1 => s[n].wrapping_sub(1),
                    _ => r.gen(),
                };
                p.push(s);
            }
        }
        for &b in &[0u8, 0xFF, b'a', r.gen()] {
            let mut e = k.clone();
            e.push(b);
            p.push(e);
        }
    }
    for _ in 0..16 {
        let len = r.gen_range(0, 6);
        p.push((0..len).map(|_| r.gen()).collect());
    }
    p
}

/// Bound keys around a model (C03): keys, prefixes, successors, absent strings, empty.
pub fn bound_keys(items: &[Kv], r: &mut StdRng, n: usize) -> Vec<Vec<u8>> {
    let mut b: Vec<Vec<u8>> = vec![vec![], vec![0], vec![0xFF], vec![0xFF, 0xFF, 0xFF]];
    if items.is_empty() {
        return b;
    }
    for _ in 0..n {
        let k = &items[r.gen_range(0, items.len())].0;
        match r.gen_range(0, 8) {
            0 => b.push(k.clone()),
            1 => b.push(k[..r.gen_range(0, k.len() + 1)].to_vec()),
            2 => {
                let mut e = k.clone();
                e.push(r.gen());
                b.push(e)
            }
            3 => {
                let mut e = k.clone();
                e.push(0);
                b.push(e)
            }
            4 => {
                if !k.is_empty() {
                    let mut e = k.clone();
                    let i = r.gen_range(0, e.len());
                    e[i] = e[i].wrapping_add(1);
                    b.push(e)
                }
            }
            5 => {
                if !k.is_empty() {
                    let mut e = k.clone();
                    let i = r.gen_range(0, e.len());
                    e[i] = e[i].wrapping_sub(1);
                    e.truncate(i + 1);
                    b.push(e)
                }
            }
            6 => {
                let mut e = k[..r.gen_range(0, k.len() + 1)].to_vec();
                e.push(r.gen());
                e.push(r.gen());
                b.push(e)
            }
            _ => {
                let len = r.gen_range(0, 4);
                b.push((0..len).map(|_| r.gen()).collect())
            }
        }
    }
    b
}
