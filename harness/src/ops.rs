//! Set operations (C05): inputs of different stream kinds, merge-table hints.

use crate::api::*;
use crate::common::*;
use crate::taut::TableAut;
use fst::raw::{Fst, IndexedValue, Output};
use fst::{IntoStreamer, Map, Set, Streamer};
use serde_json::{json, Value};
use std::collections::BTreeMap;

/// How an input stream of an operation is realised.
#[derive(Clone, Debug)]
pub enum InKind {
    /// the whole FST built from the items
    Whole,
    /// a range stream over an FST holding a superset (extra keys outside [lo, hi])
    Range,
    /// a search stream over a superset FST with an automaton accepting exactly the subset
    Search,
    /// a plain user streamer
    User,
}

pub struct OpInput {
    pub items: Vec<Kv>,
    pub kind: InKind,
}

fn build_bytes(items: &[Kv]) -> Vec<u8> {
    let mut b = fst::raw::Builder::memory();
    for (k, v) in items {
        b.insert(k, *v).unwrap();
    }
    b.into_inner().unwrap()
}

/// A trie automaton accepting exactly `keys`.
pub fn exact_aut(keys: &[Vec<u8>]) -> TableAut {
    // states: trie nodes + dead; classes: one per distinct byte used + other
    let mut bytes: Vec<u8> = keys.iter().flat_map(|k| k.iter().cloned()).collect();
    bytes.sort();
    bytes.dedup();
    let mut cls = vec![1usize; 256];
    for (i, &b) in bytes.iter().enumerate() {
        cls[b as usize] = i + 2;
    }
    let ncls = bytes.len() + 1;
    let mut delta: Vec<Vec<usize>> = vec![vec![0; ncls]];
    let mut matches = vec![false];
    for k in keys {
        let mut s = 0usize;
        for &b in k {
            let c = cls[b as usize] - 1;
            if delta[s][c] == 0 {
                delta.push(vec![0; ncls]);
                matches.push(false);
                delta[s][c] = delta.len();
            }
            s = delta[s][c] - 1;
        }
        matches[s] = true;
    }
    let dead = delta.len() + 1;
    delta.push(vec![dead; ncls]);
    matches.push(false);
    for row in delta.iter_mut() {
        for x in row.iter_mut() {
            if *x == 0 {
                *x = dead;
            }
        }
    }
    let n = delta.len();
    let mut a = TableAut { n, start: 1, cls, delta, matches, can: vec![true; n], always: vec![false; n], eof: vec![] };
    a.exact_hints();
    a
}

pub fn merge_table(ins: &[&Vec<Kv>]) -> Vec<(Vec<u8>, Vec<(usize, u64)>)> {
    let mut t: BTreeMap<Vec<u8>, Vec<(usize, u64)>> = BTreeMap::new();
    for (j, items) in ins.iter().enumerate() {
        for (k, v) in items.iter() {
            t.entry(k.clone()).or_default().push((j, *v));
        }
    }
    t.into_iter().collect()
}

impl Sess {
    /// Run one set operation over the inputs through `via` ("raw", "map", "set") and log it.
    pub fn op(&mut self, op: &str, inputs: &[OpInput], via: &str, limit: usize) {
        let mids: Vec<usize> = inputs.iter().map(|i| self.model(&i.items)).collect();
        let table = merge_table(&inputs.iter().map(|i| &i.items).collect::<Vec<_>>());
        self.no += 1;
        let o = self.no;
        let jt: Vec<Value> = table
            .iter()
            .map(|(k, hs)| json!([jb(k), hs.iter().map(|(j, v)| json!([j, ju(*v)])).collect::<Vec<_>>()]))
            .collect();
        let kinds: Vec<String> = inputs.iter().map(|i| format!("{:?}", i.kind)).collect();
        self.log.ev(json!({"ev": "ONew", "o": o, "op": op, "via": via, "ins": mids, "kinds": kinds, "table": jt}));

        // realise the inputs
        let mut supersets: Vec<Vec<u8>> = vec![];
        let mut auts: Vec<Option<TableAut>> = vec![];
        let mut ranges: Vec<Option<(Vec<u8>, Vec<u8>)>> = vec![];
        for inp in inputs {
            match inp.kind {
                InKind::Whole | InKind::User => {
                    supersets.push(build_bytes(&inp.items));
                    auts.push(None);
                    ranges.push(None);
                }
                InKind::Range => {
                    // superset = items + one key below the first and one above the last
                    let mut sup = inp.items.clone();
                    let (lo, hi) = if inp.items.is_empty() {
                        (vec![5u8], vec![5u8])
                    } else {
                        (inp.items[0].0.clone(), inp.items[inp.items.len() - 1].0.clone())
                    };
                    if !lo.is_empty() {
                        let mut below = lo.clone();
                        below.pop();
                        if !sup.iter().any(|it| it.0 == below) {
                            sup.push((below, 99));
                        }
                    }
                    let mut above = hi.clone();
                    above.push(0);
                    sup.push((above, 98));
                    if inp.items.is_empty() {
                        // empty range: ge [5] le [5] with [5] absent
                        sup.retain(|it| it.0 != vec![5u8]);
                    }
                    sup.sort();
                    supersets.push(build_bytes(&sup));
                    auts.push(None);
                    ranges.push(Some((lo, hi)));
                }
                InKind::Search => {
                    let mut sup = inp.items.clone();
                    let keys: Vec<Vec<u8>> = inp.items.iter().map(|it| it.0.clone()).collect();
                    for it in &inp.items {
                        let mut e = it.0.clone();
                        e.push(1);
                        if !keys.contains(&e) {
                            sup.push((e, 97));
                        }
                    }
                    if !keys.contains(&vec![]) {
                        sup.push((vec![], 96));
                    }
                    sup.sort();
                    sup.dedup_by(|a, b| a.0 == b.0);
                    supersets.push(build_bytes(&sup));
                    auts.push(Some(exact_aut(&keys)));
                    ranges.push(None);
                }
            }
        }
        let mut results: Vec<Option<(Vec<u8>, Vec<(usize, u64)>)>> = vec![];
        let mut panicked: Option<String> = None;
        macro_rules! run_op {
            ($builder:expr, $conv:expr) => {{
                let b = $builder;
                macro_rules! drain_op {
                    ($st:expr) => {{
                        let mut st = $st;
                        loop {
                            if results.len() > limit {
                                break;
                            }
                            match guard(|| st.next().map(|(k, ivs): (&[u8], &[IndexedValue])| (k.to_vec(), ivs.iter().map(|iv| (iv.index, iv.value)).collect::<Vec<_>>()))) {
                                Ok(Some(x)) => results.push(Some(x)),
                                Ok(None) => {
                                    results.push(None);
                                    // a finished operation stays finished
                                    for _ in 0..2 {
                                        match guard(|| st.next().map(|(k, ivs): (&[u8], &[IndexedValue])| (k.to_vec(), ivs.iter().map(|iv| (iv.index, iv.value)).collect::<Vec<_>>()))) {
                                            Ok(x) => results.push(x),
                                            Err(p) => {
                                                panicked = Some(p);
                                                break;
                                            }
                                        }
                                    }
                                    break;
                                }
                                Err(p) => {
                                    panicked = Some(p);
                                    break;
                                }
                            }
                        }
                    }};
                }
                let _ = $conv;
                match op {
                    "union" => drain_op!(b.union()),
                    "intersection" => drain_op!(b.intersection()),
                    "difference" => drain_op!(b.difference()),
                    _ => drain_op!(b.symmetric_difference()),
                }
            }};
        }
        let r = guard(|| match via {
            "raw" => {
                let fsts: Vec<Fst<&[u8]>> = supersets.iter().map(|b| Fst::new(&b[..]).unwrap()).collect();
                let mut b = fst::raw::OpBuilder::new();
                // the other ways of filling a builder, when every input is a whole FST
                let all_whole = inputs.iter().all(|i| matches!(i.kind, InKind::Whole));
                if all_whole && o % 4 == 1 {
                    b = fsts.iter().collect();
                } else if all_whole && o % 4 == 2 {
                    // (extending a builder that already holds a stream keeps the order of addition)
                    let first = if o % 8 == 6 { 0 } else { 1 };
                    if first == 1 && !fsts.is_empty() {
                        b.push(&fsts[0]);
                    }
                    b.extend(fsts.iter().skip(std::cmp::min(first, fsts.len())));
                } else if all_whole && o % 4 == 3 && !fsts.is_empty() {
                    b = fsts[0].op();
                    for f in &fsts[1..] {
                        b = b.add(f);
                    }
                } else {
                for (j, inp) in inputs.iter().enumerate() {
                    match inp.kind {
                        InKind::Whole => b.push(&fsts[j]),
                        InKind::User => b.push(VecStream { items: inp.items.clone(), i: 0 }),
                        InKind::Range => {
                            let (lo, hi) = ranges[j].clone().unwrap();
                            b.push(fsts[j].range().ge(lo).le(hi))
                        }
                        InKind::Search => b.push(fsts[j].search(auts[j].clone().unwrap())),
                    }
                }
                }
                run_op!(b, ())
            }
            "map" => {
                let maps: Vec<Map<&[u8]>> = supersets.iter().map(|b| Map::new(&b[..]).unwrap()).collect();
                let mut b = fst::map::OpBuilder::new();
                let all_whole = inputs.iter().all(|i| matches!(i.kind, InKind::Whole));
                if all_whole && o % 4 == 1 {
                    b = maps.iter().collect();
                } else if all_whole && o % 4 == 2 {
                    let first = if o % 8 == 6 { 0 } else { 1 };
                    if first == 1 && !maps.is_empty() {
                        b.push(&maps[0]);
                    }
                    b.extend(maps.iter().skip(std::cmp::min(first, maps.len())));
                } else if all_whole && o % 4 == 3 && !maps.is_empty() {
                    b = maps[0].op();
                    for m in &maps[1..] {
                        b = b.add(m);
                    }
                } else {
                for (j, inp) in inputs.iter().enumerate() {
                    match inp.kind {
                        InKind::Whole => b.push(&maps[j]),
                        InKind::User => b.push(VecStreamMap { items: inp.items.clone(), i: 0 }),
                        InKind::Range => {
                            let (lo, hi) = ranges[j].clone().unwrap();
                            b.push(maps[j].range().ge(lo).le(hi))
                        }
                        InKind::Search => b.push(maps[j].search(auts[j].clone().unwrap())),
                    }
                }
                }
                run_op!(b, ())
            }
            _ => unreachable!(),
        });
        if let Err(p) = r {
            panicked = Some(p);
        }
        for res in results {
            match res {
                None => self.log.ev(json!({"ev": "ONext", "o": o, "idx": 0, "res": []})),
                Some((k, outs)) => {
                    let idx = match table.binary_search_by(|row| row.0[..].cmp(&k[..])) {
                        Ok(i) => (i + 1) as i64,
                        Err(_) => -1,
                    };
                    let jo: Vec<Value> = outs.iter().map(|(j, v)| json!([j, ju(*v)])).collect();
                    self.log.ev(json!({"ev": "ONext", "o": o, "idx": idx, "res": [[jb(&k), jo]]}));
                }
            }
        }
        if let Some(p) = panicked {
            self.panic_ev("ONext", &p);
        }
    }

    /// An operation whose inputs are given as (content, optional pre-existing bytes): used to run
    /// set operations over FSTs of older format versions.
    pub fn op_with_bytes(&mut self, op: &str, inputs: &[(Vec<Kv>, Option<Vec<u8>>)]) {
        let mids: Vec<usize> = inputs.iter().map(|i| self.model(&i.0)).collect();
        let table = merge_table(&inputs.iter().map(|i| &i.0).collect::<Vec<_>>());
        self.no += 1;
        let o = self.no;
        let jt: Vec<Value> = table
            .iter()
            .map(|(k, hs)| json!([jb(k), hs.iter().map(|(j, v)| json!([j, ju(*v)])).collect::<Vec<_>>()]))
            .collect();
        self.log.ev(json!({"ev": "ONew", "o": o, "op": op, "via": "raw-bytes", "ins": mids, "kinds": [], "table": jt}));
        let all: Vec<Vec<u8>> = inputs.iter().map(|(items, b)| b.clone().unwrap_or_else(|| build_bytes(items))).collect();
        let mut results: Vec<Option<(Vec<u8>, Vec<(usize, u64)>)>> = vec![];
        let r = guard(|| {
            let fsts: Vec<Fst<&[u8]>> = all.iter().map(|b| Fst::new(&b[..]).unwrap()).collect();
            let mut b = fst::raw::OpBuilder::new();
            for f in &fsts {
                b.push(f);
            }
            macro_rules! drain_op2 {
                ($st:expr) => {{
                    let mut st = $st;
                    while let Some((k, ivs)) = st.next() {
                        results.push(Some((k.to_vec(), ivs.iter().map(|iv| (iv.index, iv.value)).collect())));
                    }
                    results.push(None);
                }};
            }
            match op {
                "union" => drain_op2!(b.union()),
                "intersection" => drain_op2!(b.intersection()),
                "difference" => drain_op2!(b.difference()),
                _ => drain_op2!(b.symmetric_difference()),
            }
        });
        for res in results {
            match res {
                None => self.log.ev(json!({"ev": "ONext", "o": o, "idx": 0, "res": []})),
                Some((k, outs)) => {
                    let idx = match table.binary_search_by(|row| row.0[..].cmp(&k[..])) {
                        Ok(i) => (i + 1) as i64,
                        Err(_) => -1,
                    };
                    let jo: Vec<Value> = outs.iter().map(|(j, v)| json!([j, ju(*v)])).collect();
                    self.log.ev(json!({"ev": "ONext", "o": o, "idx": idx, "res": [[jb(&k), jo]]}));
                }
            }
        }
        if let Err(p) = r {
            self.panic_ev("ONext", &p);
        }
    }

    /// Set-level operations: keys only (set::OpBuilder yields keys); logged as ONext with the
    /// holders taken from the table when the key is right (the set API reports no indices).
    pub fn set_op(&mut self, op: &str, inputs: &[OpInput], limit: usize) {
        let zero: Vec<OpInput> = inputs
            .iter()
            .map(|i| OpInput { items: i.items.iter().map(|(k, _)| (k.clone(), 0)).collect(), kind: i.kind.clone() })
            .collect();
        let mids: Vec<usize> = zero.iter().map(|i| self.model(&i.items)).collect();
        let table = merge_table(&zero.iter().map(|i| &i.items).collect::<Vec<_>>());
        self.no += 1;
        let o = self.no;
        let jt: Vec<Value> = table
            .iter()
            .map(|(k, hs)| json!([jb(k), hs.iter().map(|(j, v)| json!([j, ju(*v)])).collect::<Vec<_>>()]))
            .collect();
        self.log.ev(json!({"ev": "ONew", "o": o, "op": op, "via": "set", "ins": mids, "kinds": [], "table": jt}));
        let bytes: Vec<Vec<u8>> = zero.iter().map(|i| build_bytes(&i.items)).collect();
        let mut keys: Vec<Option<Vec<u8>>> = vec![];
        let mut panicked = None;
        let r = guard(|| {
            let sets: Vec<Set<&[u8]>> = bytes.iter().map(|b| Set::new(&b[..]).unwrap()).collect();
            let mut b = fst::set::OpBuilder::new();
            for (j, inp) in zero.iter().enumerate() {
                match inp.kind {
                    InKind::User => b.push(VecStreamSet { items: inp.items.clone(), i: 0 }),
                    _ => b.push(&sets[j]),
                }
            }
            macro_rules! drain_set {
                ($st:expr) => {{
                    let mut st = $st;
                    loop {
                        if keys.len() > limit {
                            break;
                        }
                        match st.next() {
                            Some(k) => keys.push(Some(k.to_vec())),
                            None => {
                                keys.push(None);
                                break;
                            }
                        }
                    }
                }};
            }
            match op {
                "union" => drain_set!(b.union()),
                "intersection" => drain_set!(b.intersection()),
                "difference" => drain_set!(b.difference()),
                _ => drain_set!(b.symmetric_difference()),
            }
        });
        if let Err(p) = r {
            panicked = Some(p);
        }
        for k in keys {
            match k {
                None => self.log.ev(json!({"ev": "ONext", "o": o, "idx": 0, "res": []})),
                Some(k) => {
                    let (idx, outs) = match table.binary_search_by(|row| row.0[..].cmp(&k[..])) {
                        Ok(i) => {
                            let hs: Vec<(usize, u64)> = if op == "difference" {
                                table[i].1.iter().cloned().filter(|h| h.0 == 0).collect()
                            } else {
                                table[i].1.clone()
                            };
                            ((i + 1) as i64, hs)
                        }
                        Err(_) => (-1, vec![]),
                    };
                    let jo: Vec<Value> = outs.iter().map(|(j, v)| json!([j, ju(*v)])).collect();
                    self.log.ev(json!({"ev": "ONext", "o": o, "idx": idx, "res": [[jb(&k), jo]]}));
                }
            }
        }
        if let Some(p) = panicked {
            self.panic_ev("ONext", &p);
        }
    }

    pub fn pred(&mut self, p: &str, f: usize, other: &[Kv], other_kind: &InKind) {
        let om = self.model(other);
        let bytes = self.fsts[f - 1].0.clone();
        let ob = build_bytes(other);
        let r = guard(|| {
            let set = Set::new(&bytes[..]).unwrap();
            let os = Set::new(&ob[..]).unwrap();
            match (p, other_kind) {
                ("is_disjoint", InKind::User) => set.is_disjoint(VecStreamSet { items: other.to_vec(), i: 0 }),
                ("is_disjoint", _) => set.is_disjoint(&os),
                ("is_subset", InKind::User) => set.is_subset(VecStreamSet { items: other.to_vec(), i: 0 }),
                ("is_subset", _) => set.is_subset(&os),
                ("is_superset", InKind::User) => set.is_superset(VecStreamSet { items: other.to_vec(), i: 0 }),
                (_, _) => set.is_superset(&os),
            }
        });
        match r {
            Ok(v) => self.log.ev(json!({"ev": "Pred", "p": p, "f": f, "other": om, "res": v})),
            Err(m) => self.panic_ev("Pred", &m),
        }
    }
}

impl Sess {
    /// The predicates of `raw::Fst`, whose argument streams carry values.
    pub fn pred_raw(&mut self, p: &str, f: usize, other: &[Kv], other_kind: &InKind) {
        let om = self.model(other);
        let bytes = self.fsts[f - 1].0.clone();
        let ob = build_bytes(other);
        let r = guard(|| {
            let a = fst::raw::Fst::new(&bytes[..]).unwrap();
            let o = fst::raw::Fst::new(&ob[..]).unwrap();
            match (p, other_kind) {
                ("is_disjoint", InKind::User) => a.is_disjoint(VecStream { items: other.to_vec(), i: 0 }),
                ("is_disjoint", _) => a.is_disjoint(&o),
                ("is_subset", InKind::User) => a.is_subset(VecStream { items: other.to_vec(), i: 0 }),
                ("is_subset", _) => a.is_subset(&o),
                ("is_superset", InKind::User) => a.is_superset(VecStream { items: other.to_vec(), i: 0 }),
                (_, _) => a.is_superset(&o),
            }
        });
        match r {
            Ok(v) => self.log.ev(json!({"ev": "Pred", "p": p, "f": f, "other": om, "res": v, "level": "raw"})),
            Err(m) => self.panic_ev("Pred", &m),
        }
    }
}

pub fn _unused(_: Output) {}
