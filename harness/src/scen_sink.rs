//! Sink scenarios (C07, C11): the real builders writing to scripted sinks.

use crate::common::*;
use crate::gen::*;
use crate::scen_api::inputs;
use fst::raw::Builder;
use rand::rngs::StdRng;
use rand::Rng;
use serde_json::{json, Value};
use std::cell::RefCell;
use std::io;
use std::rc::Rc;

#[derive(Clone, Debug)]
pub enum Policy {
    /// accept at most n bytes per call
    Cap(usize),
    /// accept everything except the k-th write call, which accepts one byte less (at least 1)
    ShortAt(usize),
    /// random acceptance lengths and interrupts
    Random { short: u32, intr: u32 },
    /// the k-th write call (0-based) fails: 0 = Other, 1 = BrokenPipe, 2 = WouldBlock, 3 = Ok(0)
    FaultAt { index: usize, kind: u8 },
    /// every write succeeds, every flush fails: 0 = Other, 1 = BrokenPipe, 2 = WouldBlock, 3 = Interrupted, 4 = TimedOut
    FlushFault(u8),
    /// one Interrupted before the k-th call
    IntrAt(usize),
    /// n Interrupted in a row before the k-th call
    IntrBurst(usize, usize),
    /// the k-th write call accepts about half of what it is offered, the call after it fails
    /// (a device that runs full in the middle of one buffer)
    ShortThenFault(usize, u8),
}

pub struct Shared {
    pub events: Vec<Value>,
    pub bytes: Vec<u8>,
    pub calls: usize,
    pub log_writes: bool,
    pub dead: bool,
}

pub struct ScriptedSink {
    pub sh: Rc<RefCell<Shared>>,
    pub policy: Policy,
    pub rng: StdRng,
    pub interrupted_once: bool,
    pub burst: usize,
}

impl io::Write for ScriptedSink {
    fn write(&mut self, buf: &[u8]) -> io::Result<usize> {
        let mut sh = self.sh.borrow_mut();
        let k = sh.calls;
        let mut res: Result<usize, (String, io::ErrorKind)> = Ok(buf.len());
        match self.policy {
            Policy::Cap(n) => res = Ok(std::cmp::min(n, buf.len())),
            Policy::ShortAt(i) => {
                if k == i && buf.len() > 1 {
                    res = Ok(buf.len() - 1)
                }
            }
            Policy::Random { short, intr } => {
                if self.rng.gen_range(0, 100) < intr {
                    res = Err(("interrupted".into(), io::ErrorKind::Interrupted));
                } else if buf.len() > 1 && self.rng.gen_range(0, 100) < short {
                    res = Ok(self.rng.gen_range(1, buf.len()));
                }
            }
            Policy::FaultAt { index, kind } => {
                if k == index {
                    res = match kind {
                        0 => Err(("err".into(), io::ErrorKind::Other)),
                        1 => Err(("err".into(), io::ErrorKind::BrokenPipe)),
                        2 => Err(("err".into(), io::ErrorKind::WouldBlock)),
                        _ => Ok(0),
                    }
                }
            }
            Policy::FlushFault(_) => {}
            Policy::ShortThenFault(i, kind) => {
                if k == i && buf.len() > 1 {
                    res = Ok(std::cmp::max(1, buf.len() / 2));
                } else if k == i + 1 {
                    res = match kind {
                        0 => Err(("err".into(), io::ErrorKind::Other)),
                        1 => Err(("err".into(), io::ErrorKind::BrokenPipe)),
                        2 => Err(("err".into(), io::ErrorKind::WouldBlock)),
                        _ => Ok(0),
                    }
                }
            }
            Policy::IntrAt(i) => {
                if k == i && !self.interrupted_once {
                    self.interrupted_once = true;
                    res = Err(("interrupted".into(), io::ErrorKind::Interrupted));
                }
            }
            Policy::IntrBurst(i, n) => {
                if k == i && self.burst < n {
                    self.burst += 1;
                    res = Err(("interrupted".into(), io::ErrorKind::Interrupted));
                }
            }
        }
        if !(matches!(self.policy, Policy::IntrAt(_) | Policy::IntrBurst(_, _)) && res.is_err()) {
            sh.calls += 1;
        }
        let jr = match &res {
            Ok(0) if !buf.is_empty() => json!({"r": "zero"}),
            Ok(n) => json!({"r": "n", "n": n}),
            Err((r, kind)) => json!({"r": r, "kind": format!("{:?}", kind)}),
        };
        if sh.log_writes {
            sh.events.push(json!({"ev": "Write", "buf": jb(buf), "res": jr}));
        } else if !sh.dead && (jr["r"] == "zero" || jr["r"] == "err") {
            sh.events.push(json!({"ev": "Fault", "at": "write", "res": jr}));
        }
        match res {
            Ok(n) => {
                sh.bytes.extend_from_slice(&buf[..n]);
                Ok(n)
            }
            Err((_, kind)) => Err(io::Error::new(kind, "scripted")),
        }
    }
    fn flush(&mut self) -> io::Result<()> {
        let mut sh = self.sh.borrow_mut();
        let fail = matches!(self.policy, Policy::FlushFault(_));
        if sh.log_writes {
            sh.events.push(json!({"ev": "Flush", "res": if fail { "err" } else { "ok" }}));
        } else if fail && !sh.dead {
            sh.events.push(json!({"ev": "Fault", "at": "flush"}));
        }
        if fail {
            let kind = match self.policy {
                Policy::FlushFault(1) => io::ErrorKind::BrokenPipe,
                Policy::FlushFault(2) => io::ErrorKind::WouldBlock,
                Policy::FlushFault(3) => io::ErrorKind::Interrupted,
                Policy::FlushFault(4) => io::ErrorKind::TimedOut,
                _ => io::ErrorKind::Other,
            };
            Err(io::Error::new(kind, "scripted flush failure"))
        } else {
            Ok(())
        }
    }
}

/// A plain build through a scripted sink, nothing logged: the bytes the sink ended up with, or
/// the reason there are none.
pub fn build_through(items: &[Kv], set: bool, policy: Policy, seed: u64) -> Result<Vec<u8>, String> {
    let sh = Rc::new(RefCell::new(Shared { events: vec![], bytes: vec![], calls: 0, log_writes: false, dead: true }));
    let sink = ScriptedSink { sh: sh.clone(), policy, rng: rng(seed, 78), interrupted_once: false, burst: 0 };
    let r = guard(|| -> Result<(), fst::Error> {
        let mut b = Builder::new_type(sink, 0)?;
        for (k, v) in items {
            if set {
                b.add(k)?;
            } else {
                b.insert(k, *v)?;
            }
        }
        b.finish()
    });
    match r {
        Ok(Ok(())) => Ok(std::mem::replace(&mut sh.borrow_mut().bytes, vec![])),
        Ok(Err(e)) => Err(format!("{:?}", e)),
        Err(p) => Err(format!("panic: {}", p)),
    }
}

fn reference(items: &[Kv], set: bool) -> Vec<u8> {
    let mut b = Builder::memory();
    for (k, v) in items {
        if set {
            b.add(k).unwrap();
        } else {
            b.insert(k, *v).unwrap();
        }
    }
    b.into_inner().unwrap()
}

/// One build of `items` against a scripted sink.  Returns the number of write calls the sink saw.
pub fn run(log: &mut Log, items: &[Kv], set: bool, policy: Policy, prefill: &[u8], buffered: Option<usize>, seed: u64, track: bool) -> usize {
    // write-level lock step only makes sense when the builder talks to the scripted sink directly
    let track = track && buffered.is_none();
    let sh = Rc::new(RefCell::new(Shared { events: vec![], bytes: prefill.to_vec(), calls: 0, log_writes: track, dead: false }));
    let sink = ScriptedSink { sh: sh.clone(), policy: policy.clone(), rng: rng(seed, 77), interrupted_once: false, burst: 0 };
    log.ev(json!({"ev": "KNew", "policy": format!("{:?}", policy), "prefill": prefill.len(), "buffered": buffered.map(|n| n as i64).unwrap_or(-1), "set": set}));
    let drain = |log: &mut Log| {
        let evs: Vec<Value> = std::mem::replace(&mut sh.borrow_mut().events, vec![]);
        for e in evs {
            log.ev(e);
        }
    };
    macro_rules! session {
        ($wtr:expr, $direct:expr) => {{
            let r = guard(|| Builder::new_type($wtr, 0));
            drain(log);
            let mut b = match r {
                Ok(Ok(b)) => {
                    let bw = if $direct && track { bwj(b.bytes_written()) } else { json!([]) };
                    log.ev(json!({"ev": "Call", "name": "new", "res": jok(), "bw": bw, "tracked": track}));
                    b
                }
                Ok(Err(e)) => {
                    log.ev(json!({"ev": "Call", "name": "new", "res": jerr(&e), "bw": [], "tracked": track}));
                    {
                        // what a BufWriter does when dropped is not the builder's doing
                        { let mut x = sh.borrow_mut(); x.log_writes = false; x.dead = true; }
                        return sh.borrow().calls;
                    }
                }
                Err(p) => {
                    log.ev(json!({"ev": "Panic", "in": "new", "msg": p}));
                    {
                        // what a BufWriter does when dropped is not the builder's doing
                        { let mut x = sh.borrow_mut(); x.log_writes = false; x.dead = true; }
                        return sh.borrow().calls;
                    }
                }
            };
            for (k, v) in items {
                let r = guard(|| if set { b.add(k) } else { b.insert(k, *v) });
                drain(log);
                match r {
                    Ok(r) => {
                        let bw = if $direct && track { bwj(b.bytes_written()) } else { json!([]) };
                        log.ev(json!({"ev": "Call", "name": "insert", "res": jres(&r), "bw": bw, "tracked": track}));
                        if r.is_err() {
                            {
                        // what a BufWriter does when dropped is not the builder's doing
                        { let mut x = sh.borrow_mut(); x.log_writes = false; x.dead = true; }
                        return sh.borrow().calls;
                    }
                        }
                    }
                    Err(p) => {
                        log.ev(json!({"ev": "Panic", "in": "insert", "msg": p}));
                        {
                        // what a BufWriter does when dropped is not the builder's doing
                        { let mut x = sh.borrow_mut(); x.log_writes = false; x.dead = true; }
                        return sh.borrow().calls;
                    }
                    }
                }
            }
            let r = guard(|| b.finish());
            drain(log);
            match r {
                Ok(r) => {
                    log.ev(json!({"ev": "Call", "name": "finish", "res": jres(&r), "bw": [], "tracked": track}));
                    if r.is_err() {
                        {
                        // what a BufWriter does when dropped is not the builder's doing
                        { let mut x = sh.borrow_mut(); x.log_writes = false; x.dead = true; }
                        return sh.borrow().calls;
                    }
                    }
                }
                Err(p) => {
                    log.ev(json!({"ev": "Panic", "in": "finish", "msg": p}));
                    {
                        // what a BufWriter does when dropped is not the builder's doing
                        { let mut x = sh.borrow_mut(); x.log_writes = false; x.dead = true; }
                        return sh.borrow().calls;
                    }
                }
            }
        }};
    }
    match buffered {
        None => session!(sink, true),
        Some(cap) => session!(io::BufWriter::with_capacity(cap, sink), false),
    }
    let got = sh.borrow().bytes.clone();
    let refb = reference(items, set);
    let model: Vec<Kv> = if set { items.iter().map(|(k, _)| (k.clone(), 0)).collect() } else { items.to_vec() };
    log.ev(json!({"ev": "Done", "sink": jb(&got), "ref": jb(&refb), "prefill": jb(prefill), "items": jitems(&model), "tracked": track}));
    let n = sh.borrow().calls;
    n
}

/// The bulk entry points over a scripted sink: one `extend_iter` / `extend_stream` call carries all
/// items, so a fault hits the sink in the middle of a call that goes on to further items.
enum Bulk<W: io::Write> {
    Map(fst::MapBuilder<W>),
    Set(fst::SetBuilder<W>),
    Raw(Builder<W>),
}

impl<W: io::Write> Bulk<W> {
    fn new(front: &str, w: W) -> Result<Bulk<W>, fst::Error> {
        Ok(if front.starts_with("map") {
            Bulk::Map(fst::MapBuilder::new(w)?)
        } else if front.starts_with("set") {
            Bulk::Set(fst::SetBuilder::new(w)?)
        } else {
            Bulk::Raw(Builder::new(w)?)
        })
    }
    fn load(&mut self, front: &str, items: &[Kv]) -> Result<(), fst::Error> {
        use crate::api::{VecStream, VecStreamMap, VecStreamSet};
        let stream = front.ends_with("stream");
        match self {
            Bulk::Map(b) if stream => b.extend_stream(VecStreamMap { items: items.to_vec(), i: 0 }),
            Bulk::Map(b) => b.extend_iter(items.iter().map(|(k, v)| (k.clone(), *v))),
            Bulk::Set(b) if stream => b.extend_stream(VecStreamSet { items: items.to_vec(), i: 0 }),
            Bulk::Set(b) => b.extend_iter(items.iter().map(|(k, _)| k.clone())),
            Bulk::Raw(b) if stream => b.extend_stream(VecStream { items: items.to_vec(), i: 0 }),
            Bulk::Raw(b) => b.extend_iter(items.iter().map(|(k, v)| (k.clone(), fst::raw::Output::new(*v)))),
        }
    }
    fn bytes_written(&self) -> u64 {
        match self {
            Bulk::Map(b) => b.bytes_written(),
            Bulk::Set(b) => b.bytes_written(),
            Bulk::Raw(b) => b.bytes_written(),
        }
    }
    fn finish(self) -> Result<(), fst::Error> {
        match self {
            Bulk::Map(b) => b.finish(),
            Bulk::Set(b) => b.finish(),
            Bulk::Raw(b) => b.finish(),
        }
    }
}

pub const BULK_FRONTS: &[&str] = &["map_extend_iter", "set_extend_iter", "map_extend_stream", "set_extend_stream", "raw_extend_iter", "raw_extend_stream"];

/// One build of `items` by a single bulk call against a scripted sink (written to directly, so
/// every write is followed).  Returns the number of write calls the sink saw.
pub fn run_bulk(log: &mut Log, items: &[Kv], front: &str, policy: Policy, seed: u64) -> usize {
    let set = front.starts_with("set");
    let sh = Rc::new(RefCell::new(Shared { events: vec![], bytes: vec![], calls: 0, log_writes: true, dead: false }));
    let sink = ScriptedSink { sh: sh.clone(), policy: policy.clone(), rng: rng(seed, 79), interrupted_once: false, burst: 0 };
    log.ev(json!({"ev": "KNew", "policy": format!("{:?}", policy), "prefill": 0, "buffered": -1, "set": set, "front": front}));
    let drain = |log: &mut Log| {
        let evs: Vec<Value> = std::mem::replace(&mut sh.borrow_mut().events, vec![]);
        for e in evs {
            log.ev(e);
        }
    };
    let stop = |sh: &Rc<RefCell<Shared>>| {
        let mut x = sh.borrow_mut();
        x.log_writes = false;
        x.dead = true;
        x.calls
    };
    let r = guard(|| Bulk::new(front, sink));
    drain(log);
    let mut b = match r {
        Ok(Ok(b)) => {
            log.ev(json!({"ev": "Call", "name": "new", "res": jok(), "bw": bwj(b.bytes_written()), "tracked": true}));
            b
        }
        Ok(Err(e)) => {
            log.ev(json!({"ev": "Call", "name": "new", "res": jerr(&e), "bw": [], "tracked": true}));
            return stop(&sh);
        }
        Err(p) => {
            log.ev(json!({"ev": "Panic", "in": "new", "msg": p}));
            return stop(&sh);
        }
    };
    let r = guard(|| b.load(front, items));
    drain(log);
    match r {
        Ok(r) => {
            log.ev(json!({"ev": "Call", "name": front, "res": jres(&r), "bw": bwj(b.bytes_written()), "tracked": true}));
            if r.is_err() {
                return stop(&sh);
            }
        }
        Err(p) => {
            log.ev(json!({"ev": "Panic", "in": front, "msg": p}));
            return stop(&sh);
        }
    }
    let r = guard(|| b.finish());
    drain(log);
    match r {
        Ok(r) => {
            log.ev(json!({"ev": "Call", "name": "finish", "res": jres(&r), "bw": [], "tracked": true}));
            if r.is_err() {
                return stop(&sh);
            }
        }
        Err(p) => {
            log.ev(json!({"ev": "Panic", "in": "finish", "msg": p}));
            return stop(&sh);
        }
    }
    let got = sh.borrow().bytes.clone();
    let refb = reference(items, set);
    let model: Vec<Kv> = if set { items.iter().map(|(k, _)| (k.clone(), 0)).collect() } else { items.to_vec() };
    log.ev(json!({"ev": "Done", "sink": jb(&got), "ref": jb(&refb), "prefill": [], "items": jitems(&model), "tracked": true}));
    let n = sh.borrow().calls;
    n
}

fn small_inputs(r: &mut StdRng, tier: &str) -> Vec<Vec<Kv>> {
    let mut v: Vec<Vec<Kv>> = vec![];
    v.push(vec![]);
    v.push(vec![(vec![], 0)]);
    v.push(vec![(vec![], 300)]);
    v.push(vec![(b"a".to_vec(), 1)]);
    v.push(vec![(b"a".to_vec(), 1), (b"ab".to_vec(), 70000), (b"b".to_vec(), 2)]);
    v.push(assign(fanout_keys(b"", 33, false, b"", 10), ValMode::Index, r));
    v.push(assign(fanout_keys(b"x", 3, true, b"yz", 250), ValMode::Boundary, r));
    // chains of single-transition nodes over bytes outside the common-input table
    v.push(assign(vec![vec![0x00, 0x01, 0x02, 0x1F], vec![0x00, 0x7F, 0x80], vec![0xFF, 0xFE, 0x80, 0x81, 0x9C]], ValMode::Zero, r));
    v.push(assign(vec![vec![0x05, 0x06, 0x07], vec![0xC3, 0xA9, 0xC3, 0xAA]], ValMode::Index, r));
    let n = if tier == "thorough" { 12 } else { 4 };
    for _ in 0..n {
        let nk = *pick(r, &[2usize, 4, 8]);
        let keys = random_keys(r, nk, 3, 4);
        v.push(assign(keys, *pick(r, VAL_MODES), r));
    }
    v
}

pub fn c07(log: &mut Log, seed: u64, tier: &str) {
    let mut r = rng(seed, 7);
    let smalls = small_inputs(&mut r, tier);
    for (i, items) in smalls.iter().enumerate() {
        let set = i % 5 == 4;
        // every fixed cap 1..=16
        for cap in 1..=16 {
            run(log, items, set, Policy::Cap(cap), b"", None, seed, true);
        }
        // every position of a single short write
        let w = run(log, items, set, Policy::Cap(1 << 20), b"", None, seed, true);
        for pos in 0..w {
            run(log, items, set, Policy::ShortAt(pos), b"", None, seed, true);
        }
        // one Interrupted before every write call
        for pos in 0..w {
            run(log, items, set, Policy::IntrAt(pos), b"", None, seed, true);
        }
        // bursts of Interrupted in front of every write call
        for pos in 0..w {
            run(log, items, set, Policy::IntrBurst(pos, 3 + pos % 6), b"", None, seed, true);
        }
        // a sink that runs full in the middle of a buffer: bytes_written() still counts what it took
        for pos in 0..w {
            run(log, items, set, Policy::ShortThenFault(pos, (pos % 4) as u8), b"", None, seed, true);
        }
        // pre-filled sinks, BufWriter
        run(log, items, set, Policy::Cap(3), b"earlier bytes", None, seed, true);
        run(log, items, set, Policy::Random { short: 50, intr: 30 }, b"\x00\x01", None, seed + i as u64, true);
        for cap in &[1usize, 7, 16, 8192] {
            run(log, items, set, Policy::Random { short: 40, intr: 20 }, b"", Some(*cap), seed + *cap as u64, true);
        }
    }
    // the bulk entry points under chunking
    for (i, items) in smalls.iter().enumerate() {
        for (j, front) in BULK_FRONTS.iter().enumerate() {
            run_bulk(log, items, front, Policy::Cap(1 + (i + j) % 5), seed);
            run_bulk(log, items, front, Policy::Random { short: 40, intr: 20 }, seed + (i * 7 + j) as u64);
        }
    }
    // random schedules on larger inputs (final bytes only are judged for the largest)
    let ins = inputs(&mut r, tier, false);
    let mut n = 0;
    for (_name, keys) in ins {
        if keys.len() < 20 || keys.len() > 400 {
            continue;
        }
        n += 1;
        if n > (if tier == "thorough" { 60 } else { 12 }) {
            break;
        }
        let items = assign(keys, *pick(&mut r, VAL_MODES), &mut r);
        let short = *pick(&mut r, &[10u32, 50, 90]);
        let intr = *pick(&mut r, &[0u32, 10, 40]);
        run(log, &items, false, Policy::Random { short, intr }, b"", None, seed + n, items.len() <= 120);
    }
    let words = read_lines("words-10000");
    let sample: Vec<Vec<u8>> = words.into_iter().step_by(if tier == "thorough" { 1 } else { 7 }).collect();
    let items = assign(sample, ValMode::Index, &mut r);
    run(log, &items, false, Policy::Random { short: 30, intr: 5 }, b"", None, seed, false);
    run(log, &items, false, Policy::Cap(1), b"", None, seed, false);
    // wide nodes: the count escape of a 256-transition node and the transition index are written by
    // calls of their own; schedules in which nearly every write call is interrupted first
    let wides: Vec<(Vec<Kv>, bool)> = vec![
        (assign(fanout_keys(b"", 256, false, b"", 0), ValMode::Zero, &mut r), true),
        (assign(fanout_keys(b"p", 256, true, b"", 0), ValMode::Index, &mut r), false),
        (assign(fanout_keys(b"", 255, true, b"", 1), ValMode::Zero, &mut r), true),
        (assign(fanout_keys(b"", 40, true, b"t", 100), ValMode::Index, &mut r), false),
    ];
    for (j, (items, set)) in wides.iter().enumerate() {
        for t in 0..12u64 {
            let (short, intr) = if t < 4 { (0, 90) } else if t < 8 { (60, 50) } else { (90, 50) };
            run(log, items, *set, Policy::Random { short, intr }, b"", None, seed + 1000 * j as u64 + t, false);
        }
    }
}

/// bytes_written() is part of C07's statement, not of C11's: the C11 scenario leaves it out of its
/// events, so that a change to bytes_written() alone is reported under C07 only.
static LOG_BW: std::sync::atomic::AtomicBool = std::sync::atomic::AtomicBool::new(true);
fn bwj(n: u64) -> Value {
    if LOG_BW.load(std::sync::atomic::Ordering::Relaxed) {
        json!([jn(n as usize)])
    } else {
        json!([])
    }
}

pub fn c11(log: &mut Log, seed: u64, tier: &str) {
    LOG_BW.store(false, std::sync::atomic::Ordering::Relaxed);
    let mut r = rng(seed, 11);
    let mut inputs: Vec<Vec<Kv>> = small_inputs(&mut r, tier);
    // directed shapes so that every emission site is hit: wide node with index, every node form
    inputs.push(assign(fanout_keys(b"", 40, true, b"t", 100), ValMode::Boundary, &mut r));
    inputs.push(assign(fanout_keys(b"", 256, false, b"", 0), ValMode::Zero, &mut r));
    for (i, items) in inputs.iter().enumerate() {
        let set = i % 5 == 4;
        // W = number of write calls of an unfaulted build
        let w = run(log, items, set, Policy::Cap(1 << 20), b"", None, seed, true);
        let step = if w > 200 && tier != "thorough" { w / 100 } else { 1 };
        let mut idx = 0;
        while idx < w {
            for kind in 0..4u8 {
                run(log, items, set, Policy::FaultAt { index: idx, kind }, b"", None, seed, true);
            }
            for kind in 0..4u8 {
                run(log, items, set, Policy::ShortThenFault(idx, kind), b"", None, seed, true);
            }
            idx += step;
        }
        for kind in 0..5u8 {
            run(log, items, set, Policy::FlushFault(kind), b"", None, seed, true);
        }
        // faults behind a BufWriter surface at flush time or later
        for idx in (0..std::cmp::min(w, 6)).chain(vec![w.saturating_sub(1)]) {
            run(log, items, set, Policy::FaultAt { index: idx, kind: (idx % 4) as u8 }, b"", Some(8), seed, true);
        }
        for kind in 0..5u8 {
            run(log, items, set, Policy::FlushFault(kind), b"", Some(64), seed, true);
        }
        // the bulk entry points: the faulted write falls into the middle of one call
        for j in 0..2 {
            let front = BULK_FRONTS[(2 * i + j) % BULK_FRONTS.len()];
            let w = run_bulk(log, items, front, Policy::Cap(1 << 20), seed);
            let step = if w > 60 && tier != "thorough" { w / 30 } else { 1 };
            let mut idx = 0;
            while idx < w {
                run_bulk(log, items, front, Policy::FaultAt { index: idx, kind: ((idx + j) % 4) as u8 }, seed);
                run_bulk(log, items, front, Policy::ShortThenFault(idx, ((idx + j + 1) % 4) as u8), seed);
                idx += step;
            }
            run_bulk(log, items, front, Policy::FlushFault((i % 5) as u8), seed);
        }
    }
}
