//! C17: the shipped Levenshtein automaton against edit distance (judged by TLC).

use crate::common::*;
use crate::taut::tabulate;
use fst::automaton::{Levenshtein, LevenshteinError};
use fst::{Automaton, IntoStreamer, Set, Streamer};
use rand::Rng;
use serde_json::{json, Value};

/// 1-, 2-, 3- and 4-byte characters; several share UTF-8 lead / continuation bytes.
pub const ALPHABET: &[char] = &['a', 'é', 'ê', '☃', '☄', '😀', '😁', '𝄞'];
/// A second alphabet: characters that share *continuation* bytes under different lead bytes
/// (C2 A9 / C3 A9; E3 81 82 / E3 82 82; E2 98 83 / E3 98 83; F1.. / F2.. with equal tails).
pub const ALPHABET2: &[char] = &['©', 'é', 'ª', 'あ', 'も', '\u{3603}', '\u{5F600}', '\u{9F600}'];

/// A third alphabet: 'a', 'b' and the code points at the boundaries of the UTF-8 encoding lengths
/// and of the ranges the automaton's "any other character" transitions are built from.
pub const ALPHABET3: &[char] = &['a', 'b', '\u{0}', '\u{1}', '\u{7E}', '\u{7F}', '\u{80}', '\u{81}', '\u{7FF}', '\u{800}', '\u{801}', '\u{FFF}',
    '\u{1000}', '\u{CFFF}', '\u{D000}', '\u{D7FF}', '\u{E000}', '\u{FFFD}', '\u{FFFF}', '\u{10000}', '\u{10001}', '\u{3FFFF}', '\u{40000}',
    '\u{FFFFF}', '\u{100000}', '\u{10FFFF}'];

fn capn(x: usize) -> usize {
    std::cmp::min(x, (1usize << 31) - 1)
}

fn strings(maxlen: usize) -> Vec<Vec<usize>> {
    let mut all: Vec<Vec<usize>> = vec![vec![]];
    let mut frontier: Vec<Vec<usize>> = vec![vec![]];
    for _ in 0..maxlen {
        let mut next = vec![];
        for s in &frontier {
            for c in 1..=ALPHABET.len() {
                let mut t = s.clone();
                t.push(c);
                next.push(t);
            }
        }
        all.extend(next.iter().cloned());
        frontier = next;
    }
    all
}

thread_local! {
    static WHICH: std::cell::Cell<u8> = std::cell::Cell::new(1);
}
fn text(s: &[usize]) -> String {
    let a = match WHICH.with(|w| w.get()) {
        1 => ALPHABET,
        2 => ALPHABET2,
        _ => ALPHABET3,
    };
    s.iter().map(|&c| a[c - 1]).collect()
}

fn is_match(lev: &Levenshtein, k: &str) -> bool {
    let mut st = lev.start();
    for &b in k.as_bytes() {
        st = lev.accept(&st, b);
    }
    lev.is_match(&st)
}

pub fn c17(log: &mut Log, seed: u64, tier: &str) {
    WHICH.with(|w| w.set(1));
    c17_with(log, seed, tier, true);
    // the same scope over the second alphabet (TLC's judgement only depends on character equality)
    WHICH.with(|w| w.set(2));
    c17_with(log, seed + 1, tier, false);
    WHICH.with(|w| w.set(3));
    c17_codepoints(log);
    WHICH.with(|w| w.set(1));
}

/// Every boundary code point inserted into / substituted in / appended to a few short queries.
fn c17_codepoints(log: &mut Log) {
    let n = ALPHABET3.len();
    // (queries that themselves contain boundary code points, U+0000 among them)
    let queries: Vec<Vec<usize>> = vec![vec![], vec![1], vec![1, 2], vec![1, 2, 1], vec![6], vec![1, 7], vec![20, 1], vec![3], vec![1, 3, 2], vec![26, 1], vec![3, 3]];
    for q in &queries {
        for d in 0..=2u32 {
            let lev = match guard(|| Levenshtein::new(&text(q), d)) {
                Ok(Ok(l)) => l,
                Ok(Err(_)) => continue,
                Err(p) => {
                    log.ev(json!({"ev": "Panic", "in": "new", "msg": p}));
                    continue;
                }
            };
            let mut keys: Vec<Vec<usize>> = vec![q.clone()];
            for c in 1..=n {
                for pos in 0..=q.len() {
                    let mut k = q.clone();
                    k.insert(pos, c);
                    keys.push(k);
                    if pos < q.len() {
                        let mut k = q.clone();
                        k[pos] = c;
                        keys.push(k);
                    }
                }
                keys.push(vec![c, c]);
            }
            keys.sort();
            keys.dedup();
            for k in &keys {
                match guard(|| is_match(&lev, &text(k))) {
                    Ok(m) => log.ev(json!({"ev": "LevM", "q": q, "d": d, "k": k, "m": m})),
                    Err(p) => log.ev(json!({"ev": "Panic", "in": "is_match", "msg": p})),
                }
            }
        }
    }
}

fn c17_with(log: &mut Log, seed: u64, tier: &str, limits: bool) {
    let thorough = tier == "thorough";
    let mut r = rng(seed, 17);
    let qs = strings(if thorough { 3 } else { 2 });
    let ks = strings(if thorough { 3 } else { 2 });
    let kset: Vec<String> = {
        let mut v: Vec<String> = ks.iter().map(|k| text(k)).collect();
        v.sort();
        v
    };
    let set = Set::from_iter(kset.iter()).unwrap();
    let back: std::collections::HashMap<String, Vec<usize>> = ks.iter().map(|k| (text(k), k.clone())).collect();
    for (qi, q) in qs.iter().enumerate() {
        for d in 0..=2u32 {
            let lev = match guard(|| Levenshtein::new(&text(q), d)) {
                Ok(Ok(l)) => l,
                Ok(Err(LevenshteinError::TooManyStates(n))) => {
                    log.ev(json!({"ev": "LevB", "q": q, "d": d, "limit": 10000, "res": "toomany", "payload": n, "reach": 0}));
                    continue;
                }
                Err(p) => {
                    log.ev(json!({"ev": "Panic", "in": "Levenshtein::new", "msg": p}));
                    continue;
                }
            };
            // verdict per key (sampled in the thorough tier for |q| = 3)
            let stride = if thorough && q.len() == 3 { 7 } else { 1 };
            for (ki, k) in ks.iter().enumerate() {
                if (ki + qi) % stride != 0 {
                    continue;
                }
                match guard(|| is_match(&lev, &text(k))) {
                    Ok(m) => log.ev(json!({"ev": "LevM", "q": q, "d": d, "k": k, "m": m})),
                    Err(p) => log.ev(json!({"ev": "Panic", "in": "is_match", "msg": p})),
                }
            }
            // search over the set of all keys in scope
            if q.len() <= 2 {
                let got: Result<Vec<Vec<usize>>, String> = guard(|| {
                    let mut st = set.search(&lev).into_stream();
                    let mut out = vec![];
                    while let Some(k) = st.next() {
                        out.push(back[std::str::from_utf8(k).unwrap()].clone());
                    }
                    out
                });
                match got {
                    Ok(g) => log.ev(json!({"ev": "LevS", "q": q, "d": d, "keys": ks, "got": g})),
                    Err(p) => log.ev(json!({"ev": "Panic", "in": "search", "msg": p})),
                }
                // the same search above a lower bound (the seek replays the automaton along the
                // bound): the keys in range are those at or after the bound in byte order
                for j in 0..3usize {
                    let base = &kset[(qi * 7 + d as usize * 3 + j * 11) % kset.len()];
                    let mut bound = base.as_bytes().to_vec();
                    if j == 2 {
                        bound.push(0xB0); // between a key and its extensions, inside a character
                    }
                    let strict = (qi + j) % 2 == 0;
                    let in_range: Vec<Vec<usize>> = kset.iter().filter(|k| if strict { k.as_bytes() > &bound[..] } else { k.as_bytes() >= &bound[..] })
                        .map(|k| back[k].clone()).collect();
                    let got: Result<Vec<Vec<usize>>, String> = guard(|| {
                        let sb = set.search(&lev);
                        let mut st = if strict { sb.gt(&bound).into_stream() } else { sb.ge(&bound).into_stream() };
                        let mut out = vec![];
                        while let Some(k) = st.next() {
                            out.push(back[std::str::from_utf8(k).unwrap()].clone());
                        }
                        out
                    });
                    match got {
                        Ok(g) => log.ev(json!({"ev": "LevS", "q": q, "d": d, "keys": in_range, "got": g, "bound": jb(&bound), "strict": strict})),
                        Err(p) => log.ev(json!({"ev": "Panic", "in": "bounded search", "msg": p})),
                    }
                }
            }
        }
    }
    // state limits from 1 upward
    for q in qs.iter().filter(|q| limits && q.len() <= 2).step_by(if thorough { 1 } else { 5 }) {
        for d in 0..=2u32 {
            let mut limits: Vec<usize> = (1..=12).collect();
            limits.extend(vec![16, 24, 32, 48, 64, 100, 200, 1000, 10000]);
            // "no limit" and its neighbours (logged capped at 2^31 - 1, the largest number TLC reads;
            // limit and payload are capped alike, so the comparisons of the specification still hold)
            limits.extend(vec![1usize << 31, 1 << 40, usize::MAX - 1, usize::MAX]);
            // and every limit just below and at the automaton's real size
            if let Ok(Ok(lev)) = guard(|| Levenshtein::new_with_limit(&text(q), d, 10000)) {
                let n = tabulate(&lev, 100000).map(|t| t.n).unwrap_or(0);
                limits.extend(n.saturating_sub(24)..=n + 1);
                limits.sort();
                limits.dedup();
                limits.retain(|&l| l >= 1);
            }
            for &limit in &limits {
                match guard(|| Levenshtein::new_with_limit(&text(q), d, limit)) {
                    Ok(Ok(lev)) => {
                        let reach = tabulate(&lev, 100000).map(|t| t.n - if t.matches.len() > 0 { 1 } else { 0 }).unwrap_or(0);
                        log.ev(json!({"ev": "LevB", "q": q, "d": d, "limit": capn(limit), "res": "ok", "payload": 0, "reach": reach}));
                    }
                    Ok(Err(LevenshteinError::TooManyStates(n))) => log.ev(json!({"ev": "LevB", "q": q, "d": d, "limit": capn(limit), "res": "toomany", "payload": capn(n), "reach": 0})),
                    Err(p) => log.ev(json!({"ev": "Panic", "in": "new_with_limit", "msg": p})),
                }
            }
        }
    }
    // random longer queries and keys
    let nrand = if thorough { 4000 } else { 600 };
    for _ in 0..nrand {
        let ql = r.gen_range(0, 7);
        let q: Vec<usize> = (0..ql).map(|_| r.gen_range(1, ALPHABET.len() + 1)).collect();
        let d = r.gen_range(0, 3) as u32;
        let lev = match Levenshtein::new(&text(&q), d) {
            Ok(l) => l,
            Err(_) => continue,
        };
        for _ in 0..6 {
            // keys near the query: random edits
            let mut k = q.clone();
            for _ in 0..r.gen_range(0, 4) {
                match r.gen_range(0, 3) {
                    0 if !k.is_empty() => {
                        let i = r.gen_range(0, k.len());
                        k.remove(i);
                    }
                    1 => {
                        let i = r.gen_range(0, k.len() + 1);
                        k.insert(i, r.gen_range(1, ALPHABET.len() + 1));
                    }
                    _ if !k.is_empty() => {
                        let i = r.gen_range(0, k.len());
                        k[i] = r.gen_range(1, ALPHABET.len() + 1);
                    }
                    _ => {}
                }
            }
            if k.len() > 8 {
                continue;
            }
            match guard(|| is_match(&lev, &text(&k))) {
                Ok(m) => log.ev(json!({"ev": "LevM", "q": q, "d": d, "k": k, "m": m})),
                Err(p) => log.ev(json!({"ev": "Panic", "in": "is_match", "msg": p})),
            }
        }
    }
    // automata far above the default state limit (tens of thousands of states and more): long
    // queries with distance 3 under an explicit limit; verdicts on the query itself and on keys a
    // few edits away
    for (i, &(ql, d)) in [(24usize, 3u32), (56, 3), (72, 3), (17, 4)].iter().enumerate() {
        if !thorough && i == 2 {
            continue;
        }
        let q: Vec<usize> = (0..ql).map(|_| r.gen_range(1, ALPHABET.len() + 1)).collect();
        let lev = match guard(|| Levenshtein::new_with_limit(&text(&q), d, 3_000_000)) {
            Ok(Ok(l)) => l,
            Ok(Err(_)) => continue,
            Err(p) => {
                log.ev(json!({"ev": "Panic", "in": "new_with_limit (large)", "msg": p}));
                continue;
            }
        };
        if std::env::var("FSTV_SIZES").is_ok() {
            eprintln!("large automaton: query of {} characters, distance {}: {:?} states", ql, d, tabulate(&lev, 2_000_000).map(|t| t.n));
        }
        for j in 0..40usize {
            let mut k = q.clone();
            for _ in 0..(j % 6) {
                match r.gen_range(0, 3) {
                    0 if !k.is_empty() => {
                        let i = r.gen_range(0, k.len());
                        k.remove(i);
                    }
                    1 => {
                        let i = r.gen_range(0, k.len() + 1);
                        k.insert(i, r.gen_range(1, ALPHABET.len() + 1));
                    }
                    _ if !k.is_empty() => {
                        let i = r.gen_range(0, k.len());
                        k[i] = r.gen_range(1, ALPHABET.len() + 1);
                    }
                    _ => {}
                }
            }
            match guard(|| is_match(&lev, &text(&k))) {
                Ok(m) => log.ev(json!({"ev": "LevM", "q": q, "d": d, "k": k, "m": m, "large": true})),
                Err(p) => log.ev(json!({"ev": "Panic", "in": "is_match (large)", "msg": p})),
            }
        }
    }
    let _: Option<Value> = None;
}
