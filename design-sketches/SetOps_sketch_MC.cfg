SPECIFICATION Spec
CONSTANTS
  Universe <- UniDef
  K = 3
  OpKind = "difference"
  ValMode = "equal"
INVARIANTS Correct
CHECK_DEADLOCK FALSE
