---- MODULE Automata_sketch_MC ----
EXTENDS Automata_sketch
SymsDef == {1,2}
St == {1,2}
Deltas == [St -> [SymsDef -> St]]
Reach(d, s) == LET RECURSIVE F(_) F(S) == LET N == S \cup { d[x][b] : x \in S, b \in SymsDef } IN IF N = S THEN S ELSE F(N) IN F({s})
CompsDef == UNION { { [start |-> 1, delta |-> d, match |-> m, can |-> c, always |-> a] :
                       c \in { C \in SUBSET St : \A s \in St : (Reach(d,s) \cap m # {}) => s \in C },
                       a \in { X \in SUBSET St : \A s \in X : Reach(d,s) \subseteq m } }
                    : d \in Deltas, m \in SUBSET St }
TA == <<"T","A">>  TB == <<"T","B">>
ShapesDef == { <<"SW",TA>>, <<"C",TA>>, <<"U",TA,TB>>, <<"I",TA,TB>>, <<"C",<<"U",TA,TB>>>>, <<"SW",<<"C",TA>>>>,
               <<"I",<<"SW",TA>>,<<"C",TB>>>>, <<"U",<<"C",TA>>,<<"SW",TB>>>>, <<"C",<<"SW",TA>>>>, <<"SW",<<"I",TA,TB>>>>,
               <<"C",<<"C",TA>>>>, <<"I",TA,<<"C",TA>>>> }
====
