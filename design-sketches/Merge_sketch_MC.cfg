SPECIFICATION Spec
CONSTANTS
  Input <- In1
  BatchSize = 1
  FdLimit = 2
  T = 3
  Mode = "min"
  AsFound = FALSE
INVARIANTS NoOverwrite FinalOK
PROPERTY Termination
CHECK_DEADLOCK FALSE
