---- MODULE Builder_sketch ----
EXTENDS Naturals, Sequences, FiniteSets, TLC, SequencesExt
CONSTANTS Keys, Vals, MaxIns, Cells   \* Cells = 99 means unbounded
VARIABLES stack, emitted, cache, evict, last, acc, pc, tgt, pend, sfx, sout
vars == <<stack, emitted, cache, evict, last, acc, pc, tgt, pend, sfx, sout>>
NONE == 1
Min2(a,b) == IF a <= b THEN a ELSE b
RECURSIVE Lex(_,_)
Lex(a,b) == IF a = <<>> THEN b # <<>> ELSE IF b = <<>> THEN FALSE ELSE IF a[1] < b[1] THEN TRUE ELSE IF a[1] > b[1] THEN FALSE ELSE Lex(Tail(a),Tail(b))
EmptyFrame(f) == [final |-> f, fout |-> 0, trans |-> <<>>, last |-> <<>>]
Init == /\ stack = <<EmptyFrame(FALSE)>> /\ emitted = <<>> /\ cache = {} /\ evict = 0 /\ last = <<>> /\ acc = <<>>
        /\ pc = "idle" /\ tgt = 0 /\ pend = NONE /\ sfx = <<>> /\ sout = 0
\* add_output_prefix on frame
AddPre(fr, p) == [fr EXCEPT !.fout = IF fr.final THEN p + fr.fout ELSE fr.fout,
                           !.trans = [j \in 1..Len(fr.trans) |-> [fr.trans[j] EXCEPT !.out = p + @]],
                           !.last = IF fr.last = <<>> THEN <<>> ELSE <<[fr.last[1] EXCEPT !.out = p + @]>>]
\* find_common_prefix_and_set_output: returns <<i, out, stack>>
RECURSIVE CP(_,_,_,_)
CP(st, bs, i, out) ==
  IF i < Len(bs) /\ i + 1 <= Len(st) /\ st[i+1].last # <<>> /\ st[i+1].last[1].inp = bs[i+1] THEN
     LET t == st[i+1].last[1] cp == Min2(t.out, out) ap == t.out - cp
         st1 == [st EXCEPT ![i+1].last = <<[t EXCEPT !.out = cp]>>]
         st2 == IF ap > 0 THEN [st1 EXCEPT ![i+2] = AddPre(st1[i+2], ap)] ELSE st1
     IN CP(st2, bs, i+1, out - cp)
  ELSE <<i, out, st>>
Attach(fr, addr) == IF fr.last = <<>> THEN fr ELSE
   [fr EXCEPT !.trans = Append(fr.trans, [inp |-> fr.last[1].inp, out |-> fr.last[1].out, addr |-> addr]), !.last = <<>>]
NodeOf(fr) == [final |-> fr.final, fout |-> fr.fout, trans |-> fr.trans]
InsertOk(k) == acc = <<>> \/ Lex(last, k)
Insert(k, v) ==
  /\ pc = "idle" /\ Len(acc) < MaxIns /\ InsertOk(k)
  /\ last' = k /\ acc' = Append(acc, <<k, v>>)
  /\ IF k = <<>> THEN
        /\ stack' = [stack EXCEPT ![1].final = TRUE, ![1].fout = v]
        /\ UNCHANGED <<emitted, cache, evict, pc, tgt, pend, sfx, sout>>
     ELSE LET r == CP(stack, k, 0, v) IN
        /\ stack' = r[3] /\ tgt' = r[1] /\ sout' = r[2] /\ sfx' = SubSeq(k, r[1]+1, Len(k))
        /\ pend' = NONE /\ pc' = "freeze"
        /\ UNCHANGED <<emitted, cache, evict>>
\* compile a node: result addr + new emitted/cache/evict ; nondeterministic eviction on miss
IsEmptyFinal(n) == n.final /\ n.trans = <<>> /\ n.fout = 0
Hits(n) == { a \in cache : emitted[a-1] = n }   \* address = index+1 (so >= 2)
CompileTo(n, addr, em, ca, ev) ==  \* relation
  IF IsEmptyFinal(n) THEN addr = 0 /\ em = emitted /\ ca = cache /\ ev = evict
  ELSE IF Hits(n) # {} THEN addr \in Hits(n) /\ em = emitted /\ ca = cache /\ ev = evict
  ELSE /\ em = Append(emitted, n) /\ addr = Len(emitted) + 2
       /\ IF Cells = 0 THEN ca = {} /\ ev = evict
          ELSE \/ (Cardinality(cache) < Cells /\ ca = cache \cup {addr} /\ ev = evict)
               \/ (\E x \in cache : ca = (cache \ {x}) \cup {addr} /\ ev = evict + 1)
FreezeOne ==
  /\ pc \in {"freeze", "finish"} /\ tgt + 1 < Len(stack)
  /\ LET top == stack[Len(stack)]
         fr == IF pend = NONE THEN top ELSE Attach(top, pend)
         n == NodeOf(fr) IN
     \E addr \in 0..(Len(emitted)+2) : \E ca \in SUBSET (cache \cup {Len(emitted)+2}) : \E ev \in {evict, evict+1}:
       \E em \in {emitted, Append(emitted, n)} :
        /\ CompileTo(n, addr, em, ca, ev)
        /\ emitted' = em /\ cache' = ca /\ evict' = ev /\ pend' = addr
        /\ stack' = SubSeq(stack, 1, Len(stack)-1)
  /\ UNCHANGED <<last, acc, pc, tgt, sfx, sout>>
RECURSIVE PushSfx(_,_)
PushSfx(st, bs) == IF bs = <<>> THEN Append(st, EmptyFrame(TRUE))
   ELSE PushSfx(Append(st, [final |-> FALSE, fout |-> 0, trans |-> <<>>, last |-> <<[inp |-> bs[1], out |-> 0]>>]), Tail(bs))
EndFreeze ==
  /\ pc = "freeze" /\ tgt + 1 >= Len(stack)
  /\ LET n == Len(stack)
         st1 == [stack EXCEPT ![n] = IF pend = NONE THEN @ ELSE Attach(@, pend)]
         st2 == IF sfx = <<>> THEN st1 ELSE
                  PushSfx([st1 EXCEPT ![n].last = <<[inp |-> sfx[1], out |-> sout]>>], Tail(sfx)) IN
     stack' = st2
  /\ pc' = "idle" /\ pend' = NONE /\ sfx' = <<>> /\ sout' = 0 /\ tgt' = 0
  /\ UNCHANGED <<emitted, cache, evict, last, acc>>
Finish == /\ pc = "idle" /\ pc' = "finish" /\ tgt' = 0 /\ pend' = NONE /\ UNCHANGED <<stack, emitted, cache, evict, last, acc, sfx, sout>>
EndFinish ==
  /\ pc = "finish" /\ Len(stack) = 1
  /\ LET fr == IF pend = NONE THEN stack[1] ELSE Attach(stack[1], pend) n == NodeOf(fr) IN
     \E addr \in 0..(Len(emitted)+2) : \E ca \in SUBSET (cache \cup {Len(emitted)+2}) : \E ev \in {evict, evict+1}:
       \E em \in {emitted, Append(emitted, n)} :
        /\ CompileTo(n, addr, em, ca, ev)
        /\ emitted' = em /\ cache' = ca /\ evict' = ev /\ pend' = addr
  /\ pc' = "done" /\ stack' = <<>>
  /\ UNCHANGED <<last, acc, tgt, sfx, sout>>
Next == (\E k \in Keys, v \in Vals : Insert(k, v)) \/ FreezeOne \/ EndFreeze \/ Finish \/ EndFinish
Spec == Init /\ [][Next]_vars
\* ---- interpretation
NodeAt(a) == IF a = 0 THEN [final |-> TRUE, fout |-> 0, trans |-> <<>>] ELSE emitted[a-1]
RECURSIVE LangN(_,_,_)
LangN(a, key, out) == LET n == NodeAt(a) IN
   (IF n.final THEN {<<key, out + n.fout>>} ELSE {}) \cup
   UNION { LangN(n.trans[i].addr, Append(key, n.trans[i].inp), out + n.trans[i].out) : i \in 1..Len(n.trans) }
RECURSIVE LangS(_,_,_)
LangS(j, key, out) == LET fr == stack[j] IN
   (IF fr.final THEN {<<key, out + fr.fout>>} ELSE {}) \cup
   UNION { LangN(fr.trans[i].addr, Append(key, fr.trans[i].inp), out + fr.trans[i].out) : i \in 1..Len(fr.trans) } \cup
   (IF fr.last = <<>> THEN {} ELSE LangS(j+1, Append(key, fr.last[1].inp), out + fr.last[1].out))
AccSet == { acc[i] : i \in 1..Len(acc) }
Refines == (pc = "idle" => LangS(1, <<>>, 0) = AccSet) /\ (pc = "done" => LangN(pend, <<>>, 0) = AccSet)
NoDup == evict = 0 => \A i, j \in 1..Len(emitted) : i # j => emitted[i] # emitted[j]
PrefixSet == UNION { { SubSeq(acc[i][1], 1, m) : m \in 0..Len(acc[i][1]) } : i \in 1..Len(acc) }
TrieBound == Len(emitted) <= Cardinality(PrefixSet) \/ acc = <<>>
Backward == \A i \in 1..Len(emitted) : \A t \in 1..Len(emitted[i].trans) : emitted[i].trans[t].addr = 0 \/ emitted[i].trans[t].addr < i + 1
====
