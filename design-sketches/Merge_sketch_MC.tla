---- MODULE Merge_sketch_MC ----
EXTENDS Merge_sketch
In1 == << <<1,1>>, <<1,2>>, <<2,1>>, <<1,1>> >>
In2 == << <<2,2>>, <<1,1>>, <<3,2>>, <<4,1>> >>
====
