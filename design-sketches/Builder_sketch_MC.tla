---- MODULE Builder_sketch_MC ----
EXTENDS Builder_sketch
KeysDef == {<<>>, <<1>>, <<2>>, <<1,1>>, <<1,2>>, <<2,1>>, <<2,2>>}
ValsDef == {0, 1, 5}
====
