SPECIFICATION Spec
CONSTANTS
  Syms <- SymsDef
  Comps <- CompsDef
  Shapes <- ShapesDef
INVARIANTS AllSound AllLang
CHECK_DEADLOCK FALSE
