---- MODULE Sink_sketch ----
EXTENDS Naturals, Sequences, FiniteSets, TLC
\* raw/counting_writer.rs + std write_all + an arbitrary io::Write sink, driven by a builder
\* that issues a fixed list of write_all buffers (one builder call = a group of buffers).
CONSTANTS Calls,      \* sequence of builder calls; each a sequence of buffers; each buffer a sequence of bytes
          MaxIntr,    \* interrupts tolerated per write_all
          Faulty,     \* may the sink fail / return Ok(0) / fail the flush
          AsFound     \* checksum the offered buffer before the inner write (D1)
VARIABLES ci, bi, off,        \* cursor: call, buffer within call, bytes of the buffer already accepted
          intr, sink, cnt, summed, res, flushed, status
vars == <<ci, bi, off, intr, sink, cnt, summed, res, flushed, status>>
Init == ci = 1 /\ bi = 1 /\ off = 0 /\ intr = 0 /\ sink = <<>> /\ cnt = 0 /\ summed = <<>> /\ res = <<>> /\ flushed = FALSE /\ status = "open"
Buf == Calls[ci][bi]
Rest == SubSeq(Buf, off + 1, Len(Buf))
Advance(n) ==   \* after accepting n more bytes of the current buffer
  IF off + n < Len(Buf) THEN ci' = ci /\ bi' = bi /\ off' = off + n /\ UNCHANGED <<res, status>>
  ELSE IF bi < Len(Calls[ci]) THEN ci' = ci /\ bi' = bi + 1 /\ off' = 0 /\ UNCHANGED <<res, status>>
  ELSE /\ res' = Append(res, "ok") /\ off' = 0 /\ bi' = 1
       /\ IF ci < Len(Calls) THEN ci' = ci + 1 /\ UNCHANGED status ELSE ci' = ci /\ status' = "flushing"
Accept(n) ==   \* inner write accepts n bytes of the offered rest
  /\ status = "open" /\ n \in 1..Len(Rest)
  /\ sink' = sink \o SubSeq(Rest, 1, n) /\ cnt' = cnt + n
  /\ summed' = summed \o (IF AsFound THEN Rest ELSE SubSeq(Rest, 1, n))
  /\ intr' = 0 /\ Advance(n) /\ UNCHANGED flushed
Interrupt ==   \* Err(Interrupted): write_all retries the same rest
  /\ status = "open" /\ intr < MaxIntr /\ intr' = intr + 1
  /\ summed' = IF AsFound THEN summed \o Rest ELSE summed
  /\ UNCHANGED <<ci, bi, off, sink, cnt, res, flushed, status>>
Fail ==        \* Err(other) or Ok(0): the builder call in progress returns Err(Io)
  /\ Faulty /\ status = "open" /\ res' = Append(res, "io") /\ status' = "failed"
  /\ summed' = IF AsFound THEN summed \o Rest ELSE summed
  /\ UNCHANGED <<ci, bi, off, intr, sink, cnt, flushed>>
FlushOk == status = "flushing" /\ flushed' = TRUE /\ status' = "finished" /\ UNCHANGED <<ci, bi, off, intr, sink, cnt, summed, res>>
FlushFail == Faulty /\ status = "flushing" /\ res' = [res EXCEPT ![Len(res)] = "io"] /\ status' = "failed" /\ UNCHANGED <<ci, bi, off, intr, sink, cnt, summed, flushed>>
Next == (\E n \in 1..8 : Accept(n)) \/ Interrupt \/ Fail \/ FlushOk \/ FlushFail
Spec == Init /\ [][Next]_vars
Logical == LET RECURSIVE Cat(_,_) Cat(c, b) == IF c > Len(Calls) THEN <<>> ELSE IF b > Len(Calls[c]) THEN Cat(c+1, 1) ELSE Calls[c][b] \o Cat(c, b+1) IN Cat(1,1)
Counted == cnt = Len(sink) /\ summed = sink
SinkExact == status = "finished" => sink = Logical /\ flushed /\ \A i \in 1..Len(res) : res[i] = "ok"
NoSilentSuccess == /\ status = "failed" => res[Len(res)] = "io"
                   /\ (status = "finished" => sink = Logical /\ flushed)
                   /\ \A i \in 1..Len(res) : res[i] = "ok" => i <= ci
PrefixAlways == sink = SubSeq(Logical, 1, Len(sink))
====
