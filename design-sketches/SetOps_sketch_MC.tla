---- MODULE SetOps_sketch_MC ----
EXTENDS SetOps_sketch
UniDef == {<<>>, <<1>>, <<1,1>>, <<1,2>>, <<2>>}
====
