---- MODULE Automata_sketch ----
EXTENDS Naturals, Sequences, FiniteSets, TLC
\* automaton/mod.rs : the Automaton contract, StartsWith / Union / Intersection / Complement
CONSTANTS Syms, Comps, Shapes
\* a component: [start, delta, match, can, always] over states 1..n ; expression trees over components "A","B"
VARIABLES A, B, shape
vars == <<A, B, shape>>
Comp(x) == IF x = "A" THEN A ELSE B
\* ---- semantics of an expression e = <<"T",x>> | <<"SW",e>> | <<"C",e>> | <<"U",e1,e2>> | <<"I",e1,e2>>
RECURSIVE Start(_), IsMatch(_,_), CanMatch(_,_), Always(_,_), Acc(_,_,_)
Start(e) == CASE e[1] = "T" -> Comp(e[2]).start
              [] e[1] = "SW" -> IF IsMatch(e[2], Start(e[2])) THEN <<"Done">> ELSE <<"Run", Start(e[2])>>
              [] e[1] = "C" -> Start(e[2])
              [] OTHER -> <<Start(e[2]), Start(e[3])>>
IsMatch(e, s) == CASE e[1] = "T" -> s \in Comp(e[2]).match
              [] e[1] = "SW" -> s[1] = "Done"
              [] e[1] = "C" -> ~IsMatch(e[2], s)
              [] e[1] = "U" -> IsMatch(e[2], s[1]) \/ IsMatch(e[3], s[2])
              [] e[1] = "I" -> IsMatch(e[2], s[1]) /\ IsMatch(e[3], s[2])
CanMatch(e, s) == CASE e[1] = "T" -> s \in Comp(e[2]).can
              [] e[1] = "SW" -> IF s[1] = "Done" THEN TRUE ELSE CanMatch(e[2], s[2])
              [] e[1] = "C" -> ~Always(e[2], s)
              [] e[1] = "U" -> CanMatch(e[2], s[1]) \/ CanMatch(e[3], s[2])
              [] e[1] = "I" -> CanMatch(e[2], s[1]) /\ CanMatch(e[3], s[2])
Always(e, s) == CASE e[1] = "T" -> s \in Comp(e[2]).always
              [] e[1] = "SW" -> s[1] = "Done"
              [] e[1] = "C" -> ~CanMatch(e[2], s)
              [] e[1] = "U" -> Always(e[2], s[1]) \/ Always(e[3], s[2])
              [] e[1] = "I" -> Always(e[2], s[1]) /\ Always(e[3], s[2])
Acc(e, s, b) == CASE e[1] = "T" -> Comp(e[2]).delta[s][b]
              [] e[1] = "SW" -> IF s[1] = "Done" THEN s ELSE LET n == Acc(e[2], s[2], b) IN IF IsMatch(e[2], n) THEN <<"Done">> ELSE <<"Run", n>>
              [] e[1] = "C" -> Acc(e[2], s, b)
              [] OTHER -> <<Acc(e[2], s[1], b), Acc(e[3], s[2], b)>>
ReachFrom(e, s) == LET RECURSIVE F(_) F(S) == LET N == S \cup { Acc(e, x, b) : x \in S, b \in Syms } IN IF N = S THEN S ELSE F(N) IN F({s})
Sound(e) == \A s \in ReachFrom(e, Start(e)) :
              /\ (~CanMatch(e, s)) => \A t \in ReachFrom(e, s) : ~IsMatch(e, t)
              /\ Always(e, s) => \A t \in ReachFrom(e, s) : IsMatch(e, t)
\* ---- language equations, checked on all strings up to the product size via state pairs (bisimulation-free: compare on reachable product)
\* a declarative language for expressions : set of accepting "state-free" semantics = run each component separately
RECURSIVE Lang(_,_)   \* Lang(e, w): does e accept string w, defined from component languages only
RunC(c, w) == LET RECURSIVE R(_,_) R(s,i) == IF i > Len(w) THEN s ELSE R(c.delta[s][w[i]], i+1) IN R(c.start, 1)
Lang(e, w) == CASE e[1] = "T" -> RunC(Comp(e[2]), w) \in Comp(e[2]).match
              [] e[1] = "SW" -> \E n \in 0..Len(w) : Lang(e[2], SubSeq(w, 1, n))
              [] e[1] = "C" -> ~Lang(e[2], w)
              [] e[1] = "U" -> Lang(e[2], w) \/ Lang(e[3], w)
              [] e[1] = "I" -> Lang(e[2], w) /\ Lang(e[3], w)
RunE(e, w) == LET RECURSIVE R(_,_) R(s,i) == IF i > Len(w) THEN s ELSE R(Acc(e, s, w[i]), i+1) IN R(Start(e), 1)
Words(n) == UNION { [1..m -> Syms] : m \in 0..n }
LangOK(e) == \A w \in Words(4) : IsMatch(e, RunE(e, w)) = Lang(e, w)
Init == A \in Comps /\ B \in Comps /\ shape \in Shapes
Next == UNCHANGED vars
Spec == Init /\ [][Next]_vars
AllSound == Sound(shape)
AllLang == LangOK(shape)
====
