---- MODULE LevDfa_sketch_MC ----
EXTENDS LevDfa_sketch
\* a, e-acute, e-circumflex, snowman, comet, grinning, beaming, g-clef
EncDef == << <<97>>, <<195,169>>, <<195,170>>, <<226,152,131>>, <<226,152,132>>, <<240,159,152,128>>, <<240,159,152,129>>, <<240,157,132,158>> >>
====
