---- MODULE Sink_sketch_MC ----
EXTENDS Sink_sketch
CallsDef == << << <<3,0,0,0,0,0,0,0>>, <<9,9>> >>, << <<1>>, <<7,8,9>>, <<2>> >>, << <<5,5,5,5>> >> >>
====
