SPECIFICATION Spec
CONSTANTS
  Keys <- KeysDef
  Vals <- ValsDef
  MaxIns = 4
  Cells = 2
INVARIANTS Refines NoDup TrieBound Backward
CHECK_DEADLOCK FALSE
