---- MODULE FormatDecode_sketch ----
EXTENDS Naturals, Sequences, FiniteSets, TLC, Json, IOUtils, SequencesExt, Functions
\* bytes are 1-indexed TLA sequences; file offset o is bytes[o+1]
B(bytes, o) == bytes[o+1]
\* unpack little endian n bytes at offset o as canonical LE byte seq (no trailing zeros)
RECURSIVE Trim(_)
Trim(s) == IF s = <<>> THEN s ELSE IF s[Len(s)] = 0 THEN Trim(SubSeq(s,1,Len(s)-1)) ELSE s
UnpackV(bytes, o, n) == Trim([i \in 1..n |-> B(bytes, o+i-1)])
RECURSIVE UnpackN(_,_,_)
UnpackN(bytes, o, n) == IF n = 0 THEN 0 ELSE B(bytes,o) + 256 * UnpackN(bytes, o+1, n-1)
CommonInv == <<116,101,47,111,97,115,114,105,112,99,110,119,46,104,108,109,45,100,117,48,49,50,103,61,58,98,102,51,121,53,38,95,52,118,57,54,55,56,107,37,63,120,67,68,65,83,70,73,66,69,106,80,84,122,82,78,77,43,76,79,113,72,71,87,85,86,44,89,75,74,90,88,81,59,41,40,126,91,93,36,33,39,42,64,0,1,2,3,4,5,6,7,8,9,10,11,12,13,14,15,16,17,18,19,20,21,22,23,24,25,26,27,28,29,30,31,32,34,35,60,62,92,94,96,123,124,125,127,128,129,130,131,132,133,134,135,136,137,138,139,140,141,142,143,144,145,146,147,148,149,150,151,152,153,154,155,156,157,158,159,160,161,162,163,164,165,166,167,168,169,170,171,172,173,174,175,176,177,178,179,180,181,182,183,184,185,186,187,188,189,190,191,192,193,194,195,196,197,198,199,200,201,202,203,204,205,206,207,208,209,210,211,212,213,214,215,216,217,218,219,220,221,222,223,224,225,226,227,228,229,230,231,232,233,234,235,236,237,238,239,240,241,242,243,244,245,246,247,248,249,250,251,252,253,254,255>>
CommonInput(idx) == IF idx = 0 THEN -1 ELSE IF idx <= Len(CommonInv) THEN CommonInv[idx] ELSE -2
\* Decode node at address a, version v. returns record
Decode(bytes, a, v) ==
  IF a = 0 THEN [final |-> TRUE, fout |-> <<>>, trans |-> <<>>, start |-> 0]
  ELSE LET st == B(bytes,a) top == st \div 64 low == st % 64 IN
  IF top = 3 THEN
     LET ci == CommonInput(low) il == IF ci = -1 THEN 1 ELSE 0
         inp == IF ci = -1 THEN B(bytes,a-1) ELSE ci
         start == a - il IN
     [final |-> FALSE, fout |-> <<>>, trans |-> << [inp |-> inp, out |-> <<>>, addr |-> start - 1] >>, start |-> start]
  ELSE IF top = 2 THEN
     LET ci == CommonInput(low) il == IF ci = -1 THEN 1 ELSE 0
         inp == IF ci = -1 THEN B(bytes,a-1) ELSE ci
         sz == B(bytes, a - il - 1) ts == sz \div 16 os == sz % 16
         start == a - il - 1 - ts - os
         delta == UnpackN(bytes, a - il - 1 - ts, ts)
         out == IF os = 0 THEN <<>> ELSE UnpackV(bytes, start, os) IN
     [final |-> FALSE, fout |-> <<>>, trans |-> << [inp |-> inp, out |-> out, addr |-> IF delta = 0 THEN 0 ELSE start - delta] >>, start |-> start]
  ELSE
     LET fin == (top = 1)
         nl == IF low = 0 THEN 1 ELSE 0
         nt0 == IF low = 0 THEN B(bytes,a-1) ELSE low
         nt == IF low = 0 /\ nt0 = 1 THEN 256 ELSE nt0
         sz == B(bytes, a - nl - 1) ts == sz \div 16 os == sz % 16
         ix == IF v >= 2 /\ nt > 32 THEN 256 ELSE 0
         inpEnd == a - nl - 1 - ix   \* offset one past inputs block
         start == inpEnd - nt - nt*ts - nt*os - (IF fin THEN os ELSE 0)
         tr(i) == \* i in 0..nt-1 , lexicographic order
            LET inp == B(bytes, inpEnd - i - 1)
                dl == UnpackN(bytes, inpEnd - nt - (i+1)*ts, ts)
                out == IF os = 0 THEN <<>> ELSE UnpackV(bytes, inpEnd - nt - nt*ts - (i+1)*os, os)
            IN [inp |-> inp, out |-> out, addr |-> IF dl = 0 THEN 0 ELSE start - dl]
         fo == IF fin /\ os > 0 THEN UnpackV(bytes, start, os) ELSE <<>> IN
     [final |-> fin, fout |-> fo, trans |-> [i \in 1..nt |-> tr(i-1)], start |-> start]
\* U64 add on canonical LE seqs
RECURSIVE AddC(_,_,_)
AddC(a, b, c) == IF a = <<>> /\ b = <<>> THEN (IF c = 0 THEN <<>> ELSE <<c>>)
   ELSE LET x == (IF a = <<>> THEN 0 ELSE a[1]) + (IF b = <<>> THEN 0 ELSE b[1]) + c IN
        <<x % 256>> \o AddC(IF a = <<>> THEN a ELSE Tail(a), IF b = <<>> THEN b ELSE Tail(b), x \div 256)
Add(a,b) == Trim(AddC(a,b,0))
RECURSIVE Lang(_,_,_,_,_)
Lang(bytes, v, a, key, out) ==
  LET n == Decode(bytes, a, v)
      here == IF n.final THEN { <<key, Add(out, n.fout)>> } ELSE {}
  IN here \cup UNION { Lang(bytes, v, n.trans[i].addr, Append(key, n.trans[i].inp), Add(out, n.trans[i].out)) : i \in 1..Len(n.trans) }
RECURSIVE Chain(_,_,_)
Chain(bytes, v, a) == IF a < 16 THEN <<>> ELSE LET n == Decode(bytes,a,v) IN <<[addr |-> a, start |-> n.start]>> \o Chain(bytes, v, n.start - 1)
Rec == ndJsonDeserialize("files.ndjson")
VARIABLE l
Init == l = 1
Next == /\ l <= Len(Rec) 
        /\ LET raw == Rec[l].bytes bytes == [i \in 1..Len(raw) |-> raw[i]] n == Len(bytes)
               root == UnpackN(bytes, n - 12, 4) 
               lang == Lang(bytes, 3, root, <<>>, <<>>)
               ch == Chain(bytes, 3, root) IN
           /\ lang = { <<Rec[l].model[i][1], Trim(Rec[l].model[i][2])>> : i \in 1..Len(Rec[l].model) }
           /\ ch[Len(ch)].start = 16
           /\ (l = 1 => PrintT(<<"chain", Len(ch), "keys", Cardinality(lang)>>))
        /\ l' = l + 1
Spec == Init /\ [][Next]_l
Post == PrintT(<<"validated", TLCGet("stats").diameter - 1, Len(Rec)>>) /\ TLCGet("stats").diameter - 1 = Len(Rec)
====
