------------------------------ MODULE Automata ------------------------------
(* C18: the Automaton contract and the shipped automata of                  *)
(* src/automaton/mod.rs, defined as the code defines them:                  *)
(*   leaves   T(A)    a table automaton (A: start, delta over symbols,      *)
(*                    match / can / always sets)                            *)
(*            STR(w)  Str: position or None                                 *)
(*            SUB(w)  Subsequence: number of pattern bytes matched          *)
(*            ALW     AlwaysMatch                                           *)
(*   combinators  SW (StartsWith: latches Done), U (Union), I (Intersection)*)
(*                C (Complement: swaps and negates the hints)               *)
(* and, independently, the language each expression must have.              *)
(* Sound(e): for every reachable state, can_match is false only if no       *)
(* continuation matches and will_always_match is true only if every         *)
(* continuation matches - exact, by reachability in the finite product.     *)
EXTENDS Integers, Sequences, FiniteSets, TLC

CONSTANTS Syms     \* the symbols (bytes) runs are driven over; a table leaf <<"T", A>> carries its table A

\* a symbol outside a table's explicit classes behaves like its "other" class
TabStep(A, s, b) == A.delta[s][IF b \in DOMAIN A.cls THEN A.cls[b] ELSE A.other]

RECURSIVE Start(_), IsMatch(_, _), CanMatch(_, _), Always(_, _), Acc(_, _, _)
Start(e) ==
    CASE e[1] = "T" -> e[2].start
      [] e[1] = "STR" -> <<"S", 0>>
      [] e[1] = "SUB" -> 0
      [] e[1] = "ALW" -> "u"
      [] e[1] = "SW" -> IF IsMatch(e[2], Start(e[2])) THEN <<"Done">> ELSE <<"Run", Start(e[2])>>
      [] e[1] = "C" -> Start(e[2])
      [] OTHER -> <<Start(e[2]), Start(e[3])>>
IsMatch(e, s) ==
    CASE e[1] = "T" -> s \in e[2].match
      [] e[1] = "STR" -> s = <<"S", Len(e[2])>>
      [] e[1] = "SUB" -> s = Len(e[2])
      [] e[1] = "ALW" -> TRUE
      [] e[1] = "SW" -> s[1] = "Done"
      [] e[1] = "C" -> ~IsMatch(e[2], s)
      [] e[1] = "U" -> IsMatch(e[2], s[1]) \/ IsMatch(e[3], s[2])
      [] e[1] = "I" -> IsMatch(e[2], s[1]) /\ IsMatch(e[3], s[2])
CanMatch(e, s) ==
    CASE e[1] = "T" -> s \in e[2].can
      [] e[1] = "STR" -> s[1] = "S"
      [] e[1] = "SUB" -> TRUE
      [] e[1] = "ALW" -> TRUE
      [] e[1] = "SW" -> IF s[1] = "Done" THEN TRUE ELSE CanMatch(e[2], s[2])
      [] e[1] = "C" -> ~Always(e[2], s)
      [] e[1] = "U" -> CanMatch(e[2], s[1]) \/ CanMatch(e[3], s[2])
      [] e[1] = "I" -> CanMatch(e[2], s[1]) /\ CanMatch(e[3], s[2])
Always(e, s) ==
    CASE e[1] = "T" -> s \in e[2].always
      [] e[1] = "STR" -> FALSE
      [] e[1] = "SUB" -> s = Len(e[2])
      [] e[1] = "ALW" -> TRUE
      [] e[1] = "SW" -> s[1] = "Done"
      [] e[1] = "C" -> ~CanMatch(e[2], s)
      [] e[1] = "U" -> Always(e[2], s[1]) \/ Always(e[3], s[2])
      [] e[1] = "I" -> Always(e[2], s[1]) /\ Always(e[3], s[2])
Acc(e, s, b) ==
    CASE e[1] = "T" -> TabStep(e[2], s, b)
      [] e[1] = "STR" -> IF s[1] = "S" /\ s[2] < Len(e[2]) /\ e[2][s[2] + 1] = b THEN <<"S", s[2] + 1>> ELSE <<"N">>
      [] e[1] = "SUB" -> IF s = Len(e[2]) THEN s ELSE IF e[2][s + 1] = b THEN s + 1 ELSE s
      [] e[1] = "ALW" -> s
      [] e[1] = "SW" -> IF s[1] = "Done" THEN s
                        ELSE LET n == Acc(e[2], s[2], b) IN IF IsMatch(e[2], n) THEN <<"Done">> ELSE <<"Run", n>>
      [] e[1] = "C" -> Acc(e[2], s, b)
      [] OTHER -> <<Acc(e[2], s[1], b), Acc(e[3], s[2], b)>>

ReachFrom(e, s) ==
    LET RECURSIVE F(_)
        F(S) == LET N == S \cup { Acc(e, x, b) : x \in S, b \in Syms } IN IF N = S THEN S ELSE F(N)
    IN  F({s})
RunE(e, w) == LET RECURSIVE R(_, _) R(s, i) == IF i > Len(w) THEN s ELSE R(Acc(e, s, w[i]), i + 1) IN R(Start(e), 1)

\* the contract: hints are sound in every reachable state
SoundAt(e, s) ==
    \E R \in {ReachFrom(e, s)} :
       /\ (~CanMatch(e, s) => \A t \in R : ~IsMatch(e, t))
       /\ (Always(e, s) => \A t \in R : IsMatch(e, t))
Sound(e) == \A s \in ReachFrom(e, Start(e)) : SoundAt(e, s)

---------------------------------------------------------------------------
(* the languages, independent of the machines above *)
RunTab(A, w) == LET RECURSIVE R(_, _) R(s, i) == IF i > Len(w) THEN s ELSE R(TabStep(A, s, w[i]), i + 1) IN R(A.start, 1)
RECURSIVE IsSubseq(_, _, _, _)
IsSubseq(p, i, w, j) == IF i > Len(p) THEN TRUE ELSE IF j > Len(w) THEN FALSE
                        ELSE IF p[i] = w[j] THEN IsSubseq(p, i + 1, w, j + 1) ELSE IsSubseq(p, i, w, j + 1)
RECURSIVE Lang(_, _)
Lang(e, w) ==
    CASE e[1] = "T" -> RunTab(e[2], w) \in e[2].match
      [] e[1] = "STR" -> w = e[2]
      [] e[1] = "SUB" -> IsSubseq(e[2], 1, w, 1)
      [] e[1] = "ALW" -> TRUE
      [] e[1] = "SW" -> \E n \in 0..Len(w) : Lang(e[2], SubSeq(w, 1, n))
      [] e[1] = "C" -> ~Lang(e[2], w)
      [] e[1] = "U" -> Lang(e[2], w) \/ Lang(e[3], w)
      [] e[1] = "I" -> Lang(e[2], w) /\ Lang(e[3], w)
Words(n) == UNION { [1..m -> Syms] : m \in 0..n }
LangOK(e, n) == \A w \in Words(n) : IsMatch(e, RunE(e, w)) = Lang(e, w)
=============================================================================
