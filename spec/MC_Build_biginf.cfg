SPECIFICATION Spec
CONSTANTS
  Keys <- KeysBig
  Vals <- ValsDef
  MaxCalls = 4
  Cells = 99
  SetMode = FALSE
INVARIANTS Refines AccSorted NoDupUnlessEvicted TrieBound Backward Retained MonotoneOutputs Minimal 
VIEW View
CHECK_DEADLOCK FALSE
