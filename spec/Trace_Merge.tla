----------------------------- MODULE Trace_Merge -----------------------------
(* Code -> spec for C19: runs of the real `fst set` / `fst map` binaries in  *)
(* unsorted mode (hook H4: one event per created batch, seeded delays), with *)
(* the content of every intermediate and final file added by the recorder.  *)
(* Each run must be a behaviour of Merge.tla's file-level semantics: batches *)
(* are the consecutive slices of the input, every union consumes outputs of *)
(* the previous generation (each exactly once, at most fd_limit per union), *)
(* every file's content is the merge of its inputs, no temp name is written *)
(* twice, and the final FST is the merge of all rows - for every batch size,*)
(* fd limit, thread count and interleaving.                                 *)
EXTENDS FstAbs, Json, IOUtils

Rec == ndJsonDeserialize(IOEnv.TRACE)
VARIABLES l, run, files, used, nkv,
          digs       \* input |-> digest of the final file of its first run
vars == <<l, run, files, used, nkv, digs>>
E == Rec[l]
IsEvent(e) == l <= Len(Rec) /\ Rec[l].ev = e /\ l' = l + 1
R == Rec[run]
Empty == [x \in {} |-> 0]
Put(f, k, v) == [x \in (DOMAIN f) \cup {k} |-> IF x = k THEN v ELSE f[x]]

SeqSet(s) == { s[i] : i \in 1..Len(s) }
Pairs(content) == { <<content[i][1], content[i][2]>> : i \in 1..Len(content) }
KeysIn(rows) == { rows[i][1] : i \in 1..Len(rows) }
ValsFor(rows, k) == LET I == { i \in 1..Len(rows) : rows[i][1] = k } IN { <<i, rows[i][2]>> : i \in I }
\* merge of a non-empty set of indexed values (the merge functions are commutative and associative)
RECURSIVE MergeSet(_, _)
MergeSet(mode, S) ==
    LET x == CHOOSE y \in S : TRUE IN
    IF S = {x} THEN x[2] ELSE MergeVals(mode, x[2], MergeSet(mode, S \ {x}))
\* what a file built from `rows` must hold (KvBatch::create_fst, repaired semantics)
KvFile(mode, rows) ==
    { <<k, IF mode = "set" THEN UZero ELSE MergeSet(mode, ValsFor(rows, k))>> : k \in KeysIn(rows) }
\* what a union of files must hold (UnionBatch::create_fst, repaired semantics)
UnionFile(mode, fs) ==
    LET ks == UNION { { p[1] : p \in fs[i] } : i \in 1..Len(fs) } IN
    { <<k, IF mode = "set" THEN UZero
           ELSE MergeSet(mode, { <<i, (CHOOSE p \in fs[i] : p[1] = k)[2]>> : i \in { i \in 1..Len(fs) : \E p \in fs[i] : p[1] = k } })>> : k \in ks }

Init == l = 1 /\ run = 0 /\ files = Empty /\ used = {} /\ nkv = 0 /\ digs = Empty

Run == /\ IsEvent("Run")
       /\ run' = l /\ files' = Empty /\ used' = {} /\ nkv' = 0 /\ UNCHANGED digs

Min2(a, b) == IF a <= b THEN a ELSE b
Batch ==
    /\ IsEvent("Batch") /\ run # 0
    /\ E.output \notin DOMAIN files                          \* NoOverwrite
    /\ IF E.kind = "kv"
       THEN /\ E.gen = 0 - 1
            /\ LET n == Len(R.rows)
                   lo == E.index * R.bs + 1
                   hi == Min2((E.index + 1) * R.bs, n) IN
               /\ lo <= n
               \* (content: when the recorder could read the file after the run)
               /\ (E.readable => TRUE = (Pairs(E.content) = KvFile(R.mode, SubSeq(R.rows, lo, hi))))
            /\ nkv' = nkv + 1 /\ UNCHANGED used
       ELSE /\ Len(E.inputs) >= 1 /\ Len(E.inputs) <= R.fd
            /\ \A i \in 1..Len(E.inputs) :
                  /\ E.inputs[i] \in DOMAIN files
                  /\ E.inputs[i] \notin used                  \* each file consumed once
                  /\ Rec[files[E.inputs[i]]].gen = E.gen - 1  \* from the previous generation
            /\ Len(E.inputs) = Cardinality(SeqSet(E.inputs))
            /\ ((E.readable /\ \A i \in 1..Len(E.inputs) : Rec[files[E.inputs[i]]].readable)
                  => TRUE = (Pairs(E.content) = UnionFile(R.mode, [i \in 1..Len(E.inputs) |-> Pairs(Rec[files[E.inputs[i]]].content)])))
            /\ used' = used \cup SeqSet(E.inputs) /\ UNCHANGED nkv
    /\ files' = Put(files, E.output, l)
    /\ UNCHANGED <<run, digs>>

Final ==
    /\ IsEvent("Final") /\ run # 0
    /\ E.exit = 0
    /\ E.verify = "ok"
    /\ LET n == Len(R.rows) IN nkv = (n + R.bs - 1) \div R.bs       \* every slice became a batch
    \* exactly one file was never consumed: the result (none for an empty input)
    /\ LET left == (DOMAIN files) \ used IN
       IF Len(R.rows) = 0 THEN left = {} /\ E.content = <<>>
       ELSE /\ Cardinality(left) = 1
            /\ (Rec[files[CHOOSE f \in left : TRUE]].readable
                  => TRUE = (Pairs(E.content) = Pairs(Rec[files[CHOOSE f \in left : TRUE]].content)))
    /\ TRUE = IsContent(E.content)
    /\ TRUE = (Pairs(E.content) = KvFile(R.mode, R.rows))             \* = merge of all rows
    /\ E.len = Len(E.content)
    \* without repeated keys: byte-identical to a sorted build
    /\ (R.dupfree => E.same_as_sorted = "yes")
    \* "the same FST" for every batch size, fd limit, thread count and interleaving: the bytes
    \* of the final file of every run over the same input and merge mode are the same
    /\ IF R.input \in DOMAIN digs THEN digs[R.input] = E.digest /\ UNCHANGED digs
       ELSE digs' = Put(digs, R.input, E.digest)
    /\ run' = 0 /\ UNCHANGED <<files, used, nkv>>

Next == Run \/ Batch \/ Final
Spec == Init /\ [][Next]_vars
Accepted ==
    LET d == TLCGet("stats").diameter IN
    IF d - 1 = Len(Rec) THEN PrintT(<<"TRACE-ACCEPTED", Len(Rec)>>)
    ELSE PrintT(<<"TRACE-REJECTED", d>>) /\ FALSE
=============================================================================
