------------------------------- MODULE MC_Abs -------------------------------
(* Sanity of layer A on a small scope: the certified (hinted) forms agree   *)
(* with the declarative definitions for every instance, so trace validation *)
(* may use the certified forms.  One initial state per instance.            *)
EXTENDS FstAbs, SequencesExt

Sym == {1, 2}
Universe == StringsUpTo(Sym, 2)
Probes == Universe \cup {<<1, 2, 1>>, <<2, 2, 2>>, <<1, 1, 1>>}
ValFor(k) == UFromNat(3 * Len(k) + (IF k = <<>> THEN 0 ELSE k[1]) + 250)
ContentOf(S) == LET ks == SetToSortSeq(S, Lex) IN [i \in 1..Len(ks) |-> <<ks[i], ValFor(ks[i])>>]

\* a few automata over classes {byte 1, other}
Cls == [i \in 1..256 |-> IF i = 2 THEN 1 ELSE 2]
Auts == { [n |-> 2, start |-> 1, cls |-> Cls, delta |-> d, match |-> m, can |-> {1, 2}, always |-> {}, eof |-> <<0, 0>>] :
            d \in [{1, 2} -> [{1, 2} -> {1, 2}]], m \in SUBSET {1, 2} }

VARIABLES c, p, lo, hi, aut, c2, op, mode, pc
vars == <<c, p, lo, hi, aut, c2, op, mode, pc>>

BoundKeys == Universe \cup {<<1, 2, 1>>, <<2, 2, 2>>, <<1, 1, 1>>}
HiSet == {NoBound} \cup { <<kd, k>> : kd \in {"le", "lt"}, k \in Universe }
SomeAuts == { b \in Auts : b.delta[1][1] = 1 /\ b.delta[2][2] = 2 /\ b.match \in {{1}, {2}} }

\* Init chooses the content; the first step chooses the rest (so that the
\* instances are spread over TLC's workers); the dimensions that an invariant
\* does not mention stay at a default.
Init == /\ c \in { ContentOf(S) : S \in { T \in SUBSET Universe : Cardinality(T) <= 4 } }
        /\ mode \in {"lookup", "range", "ops"}
        /\ pc = "init" /\ p = <<>> /\ lo = NoBound /\ hi = NoBound /\ aut = None /\ c2 = <<>> /\ op = "union"
Pick == /\ pc = "init" /\ pc' = "ready" /\ UNCHANGED <<c, mode>>
        /\ p' \in Probes
        /\ CASE mode = "lookup" -> UNCHANGED <<lo, hi, aut, c2, op>>
             [] mode = "range" -> /\ lo' \in {NoBound, <<"ge", p'>>, <<"gt", p'>>}
                                  /\ hi' \in HiSet
                                  /\ aut' \in {None} \cup { Some(a) : a \in SomeAuts }
                                  /\ UNCHANGED <<c2, op>>
             [] mode = "ops" -> /\ p' = <<>>
                                /\ c2' \in { ContentOf(S) : S \in SUBSET Universe }
                                /\ op' \in {"union", "intersection", "symmetric_difference", "difference"}
                                /\ UNCHANGED <<lo, hi, aut>>
Next == Pick
Spec == Init /\ [][Next]_vars

ContentSorted == IsContent(c)

LookupAgree == pc = "ready" =>
    \A r \in 0..Len(c) : RankOK(c, p, r) =>
        /\ LookupAt(c, p, r) = Lookup(c, p)
        /\ (HasKey(c, p) <=> LookupAt(c, p, r) # None)
RankExists == pc = "ready" => \E r \in 0..Len(c) : RankOK(c, p, r)

\* walking with NextOK from the certified interval reproduces RangeSeq
RECURSIVE Walk(_, _, _)
Walk(from, to, pos) ==
    LET Idx == { i \in 0..Len(c) : NextOK(c, from, to, aut, pos, i) } IN
    IF Cardinality(Idx) # 1 THEN << "AMBIGUOUS", Idx >>
    ELSE LET i == CHOOSE i \in Idx : TRUE IN
         IF i = 0 THEN <<>> ELSE <<c[i]>> \o Walk(from, to, i)
RangeAgree == pc = "ready" =>
    /\ \E f \in 0..Len(c) : FromOK(c, lo, f)
    /\ \E t \in 0..Len(c) : ToOK(c, hi, t)
    /\ \A f, t \in 0..Len(c) : FromOK(c, lo, f) /\ ToOK(c, hi, t) =>
           Walk(f, t, 0) = RangeSeq(c, lo, hi, aut)

\* the declarative merge table
Ins == <<c, c2, c>>
TrueTable == LET ks == SetToSortSeq(AllKeys(Ins), Lex) IN [i \in 1..Len(ks) |-> <<ks[i], Holders(Ins, ks[i])>>]
MergeAgree == pc = "ready" =>
    /\ IsMergeTable(TrueTable, Ins)
    \* a corrupted table is rejected
    /\ (Len(TrueTable) > 0 => ~IsMergeTable(Tail(TrueTable), Ins))
    /\ (Len(TrueTable) > 1 => ~IsMergeTable(<<TrueTable[2], TrueTable[1]>> \o SubSeq(TrueTable, 3, Len(TrueTable)), Ins))
RECURSIVE OpWalk(_, _)
OpWalk(T, pos) ==
    LET Idx == { i \in 0..Len(T) : OpNextOK(op, T, 3, pos, i) } IN
    IF Cardinality(Idx) # 1 THEN << "AMBIGUOUS", Idx >>
    ELSE LET i == CHOOSE i \in Idx : TRUE IN
         IF i = 0 THEN <<>> ELSE << <<T[i][1], OpOuts(op, T[i][2])>> >> \o OpWalk(T, i)
OpAgree == pc = "ready" => OpWalk(TrueTable, 0) = OpSeq(op, TrueTable, 3)
OpMeaning == pc = "ready" =>
    LET ks == { r[1] : r \in { OpSeq(op, TrueTable, 3)[i] : i \in 1..Len(OpSeq(op, TrueTable, 3)) } } IN
    CASE op = "union" -> ks = KeySet(c) \cup KeySet(c2)
      [] op = "intersection" -> ks = KeySet(c) \cap KeySet(c2)
      [] op = "symmetric_difference" -> ks = KeySet(c2)   \* c (+) c2 (+) c
      [] op = "difference" -> ks = {}                       \* c \ (c2 u c)

InverseAgree == (pc = "ready" /\ ValuesIncrease(c)) =>
      \A v \in { ValFor(k) : k \in Universe } \cup {UZero, UFromNat(257), UFromNat(70000)} :
        /\ \E r \in 0..Len(c) : VRankOK(c, v, r)
        /\ \A r \in 0..Len(c) : VRankOK(c, v, r) => InverseAt(c, v, r) = InverseOf(c, v)

\* U64 arithmetic against TLC naturals
U64Agree ==
    \A a, b \in {0, 1, 255, 256, 257, 65535, 65536, 70000} :
        /\ UToNat(UFromNat(a)) = a
        /\ IsU64(UFromNat(a))
        /\ UAdd(UFromNat(a), UFromNat(b)) = UFromNat(a + b)
        /\ (ULt(UFromNat(a), UFromNat(b)) <=> a < b)
        /\ (b <= a => USub(UFromNat(a), UFromNat(b)) = UFromNat(a - b))
        /\ UMin(UFromNat(a), UFromNat(b)) = UFromNat(IF a < b THEN a ELSE b)
LexAgree == \A a, b \in Universe : (Lex(a, b) \/ Lex(b, a) \/ a = b) /\ ~(Lex(a, b) /\ Lex(b, a))
=============================================================================
