----------------------------- MODULE Trace_Sink -----------------------------
(* Code -> spec for the sink path (C07, C11): every write() and flush() the *)
(* real builder issues against a scripted sink, every builder call's result *)
(* and bytes_written(), and the bytes the sink ends up with.                *)
EXTENDS FstSink, FstFormat, Json, IOUtils

Rec == ndJsonDeserialize(IOEnv.TRACE)
VARIABLES l, crcT, live, buffered
vars == <<pending, sink, cnt, summed, failed, intr, flushed, l, crcT, live, buffered>>

E == Rec[l]
IsEvent(e) == l <= Len(Rec) /\ Rec[l].ev = e /\ l' = l + 1 /\ UNCHANGED crcT
OkRes == [err |-> "none"]

Init == SinkInit /\ l = 1 /\ crcT = MakeCrcTable /\ live = FALSE /\ buffered = FALSE

\* a new builder over a fresh scripted sink
KNew == /\ IsEvent("KNew")
        /\ pending' = <<>> /\ sink' = <<>> /\ cnt' = 0 /\ summed' = <<>> /\ failed' = FALSE /\ intr' = 0 /\ flushed' = FALSE
        /\ live' = TRUE /\ buffered' = (E.buffered >= 0)

Write ==
    /\ IsEvent("Write") /\ live
    /\ CASE E.res.r = "n" -> WriteAccept(E.buf, E.res.n)
         [] E.res.r = "interrupted" -> WriteInterrupted(E.buf)
         [] E.res.r \in {"zero", "err"} -> WriteFail(E.buf)
    /\ UNCHANGED <<live, buffered>>

\* a std::io::BufWriter between the builder and the sink flushes again when it
\* is dropped after a failure: writes that are not the builder's doing
WriteAfterFail ==
    /\ IsEvent("Write") /\ live /\ failed /\ buffered
    /\ UNCHANGED <<svars, live, buffered>>

Flush ==
    /\ IsEvent("Flush") /\ live
    /\ IF E.res = "ok" THEN FlushOk ELSE FlushFail
    /\ UNCHANGED <<live, buffered>>

\* sessions that are not followed write by write (a BufWriter in between, very
\* large builds) only report that the sink failed a write or the flush
Fault ==
    /\ IsEvent("Fault") /\ live
    /\ failed' = TRUE
    /\ UNCHANGED <<pending, sink, cnt, summed, intr, flushed, live, buffered>>

\* a builder call returned: Err(Io) iff a write or the flush failed during it
\* (C11); bytes_written() equals the bytes the sink has accepted (C07)
Call ==
    /\ IsEvent("Call") /\ live
    /\ MayReturn
    /\ E.res.err = (IF failed THEN "Io" ELSE "none")
    /\ (E.bw # <<>> => E.bw[1] = cnt)
    /\ (E.name = "finish" /\ E.res = OkRes /\ E.tracked => flushed)
    /\ live' = ~failed
    /\ UNCHANGED <<svars, buffered>>

\* the finished build: the sink holds exactly the in-memory build after its
\* earlier content; it verifies and reads back, by the format alone, to the items
Done ==
    /\ IsEvent("Done")
    /\ ~failed /\ (E.tracked => flushed)
    /\ E.sink = E.prefill \o E.ref
    /\ (E.tracked => sink = E.ref /\ Counted)
    /\ \E b \in {E.ref} :
          /\ StoredSum(b) = ExpectedSum(crcT, b)
          /\ Lang(b, 3) = { <<E.items[i][1], E.items[i][2]>> : i \in 1..Len(E.items) }
    /\ live' = FALSE
    /\ UNCHANGED <<svars, buffered>>

Next == KNew \/ Write \/ WriteAfterFail \/ Fault \/ Flush \/ Call \/ Done
Spec == Init /\ [][Next]_vars

Accepted ==
    LET d == TLCGet("stats").diameter IN
    IF d - 1 = Len(Rec) THEN PrintT(<<"TRACE-ACCEPTED", Len(Rec)>>)
    ELSE PrintT(<<"TRACE-REJECTED", d>>) /\ FALSE
=============================================================================
