---------------------------- MODULE MC_Automata ----------------------------
(* Every composition shape of the scope over every pair of 2-state table    *)
(* components with EVERY sound hint assignment, and over the built-in       *)
(* leaves: hint soundness (exact) and the language equations.               *)
EXTENDS Automata

CONSTANTS Stride     \* 1: every component pair; n: a systematic 1-in-n sample
SymsDef == {1, 2}
St == {1, 2}
Deltas == [St -> [SymsDef -> St]]
Reach(d, s) == LET RECURSIVE F(_) F(S) == LET N == S \cup { d[x][b] : x \in S, b \in SymsDef } IN IF N = S THEN S ELSE F(N) IN F({s})
CompSet == UNION { { [start |-> 1, delta |-> d, cls |-> [b \in SymsDef |-> b], other |-> 1, match |-> m, can |-> c, always |-> a] :
                       c \in { C \in SUBSET St : \A s \in St : (Reach(d, s) \cap m # {}) => s \in C },
                       a \in { X \in SUBSET St : \A s \in X : Reach(d, s) \subseteq m } }
                    : d \in Deltas, m \in SUBSET St }
CompSeq == LET RECURSIVE F(_) F(S) == IF S = {} THEN <<>> ELSE LET x == CHOOSE y \in S : TRUE IN <<x>> \o F(S \ {x}) IN F(CompSet)

Leaves(A, B) == { <<"T", A>>, <<"T", B>>, <<"STR", <<>>>>, <<"STR", <<1, 2>>>>, <<"SUB", <<>>>>, <<"SUB", <<1, 1>>>>, <<"SUB", <<2, 1>>>>, <<"ALW">> }
Shapes(x, y) == { x, <<"SW", x>>, <<"C", x>>, <<"U", x, y>>, <<"I", x, y>>, <<"C", <<"U", x, y>>>>, <<"SW", <<"C", x>>>>,
                  <<"I", <<"SW", x>>, <<"C", y>>>>, <<"U", <<"C", x>>, <<"SW", y>>>>, <<"C", <<"SW", x>>>>, <<"SW", <<"I", x, y>>>>,
                  <<"C", <<"C", x>>>>, <<"I", x, <<"C", x>>>>, <<"SW", <<"U", x, y>>>>, <<"U", <<"SW", x>>, <<"SW", y>>>>,
                  <<"C", <<"I", x, <<"C", y>>>>>>, <<"SW", <<"SW", x>>>>, <<"I", <<"U", x, y>>, <<"C", <<"SW", x>>>>>> }

VARIABLES pc, ia, ib, shape
vars == <<pc, ia, ib, shape>>
\* the pair of components is chosen in the first step (spread over the workers)
Init == pc = "init" /\ ia = 0 /\ ib = 0 /\ shape = <<>>
Pick == /\ pc = "init" /\ pc' = "comp"
        /\ ia' \in { i \in 1..Len(CompSeq) : i % Stride = 0 \/ Stride = 1 }
        /\ ib' \in { i \in 1..Len(CompSeq) : (i + ia') % Stride = 0 \/ Stride = 1 }
        /\ shape' = <<>>
PickShape == /\ pc = "comp" /\ pc' = "ready" /\ UNCHANGED <<ia, ib>>
             /\ \E x \in Leaves(CompSeq[ia], CompSeq[ib]) : \E y \in Leaves(CompSeq[ia], CompSeq[ib]) : shape' \in Shapes(x, y)
Next == Pick \/ PickShape
Spec == Init /\ [][Next]_vars

AllSound == pc = "ready" => Sound(shape)
AllLang == pc = "ready" => LangOK(shape, 4)
=============================================================================
