SPECIFICATION Spec
CONSTANTS
  Enc <- EncDef
  MaxQ = 2
  MaxK = 2
  MaxD = 2
  Fixed = TRUE
  Limit = 10000
INVARIANTS DfaOK RowOK
CHECK_DEADLOCK FALSE
