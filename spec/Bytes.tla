------------------------------- MODULE Bytes -------------------------------
(* Byte strings: keys of an FST are finite sequences over 0..255, ordered  *)
(* lexicographically (the order of Rust's `[u8]` comparison).              *)
EXTENDS Integers, Sequences, FiniteSets

Byte == 0..255

\* An Option is a sequence of length 0 or 1 (JSON null cannot be read by TLC).
None == <<>>
Some(x) == <<x>>
IsSome(o) == o # <<>>
Unwrap(o) == o[1]

RECURSIVE LexFrom(_, _, _)
LexFrom(a, b, i) ==
    IF i > Len(a) THEN i <= Len(b)
    ELSE IF i > Len(b) THEN FALSE
    ELSE IF a[i] < b[i] THEN TRUE
    ELSE IF a[i] > b[i] THEN FALSE
    ELSE LexFrom(a, b, i + 1)

\* strict lexicographic order on byte strings
Lex(a, b) == LexFrom(a, b, 1)
Leq(a, b) == IF a = b THEN TRUE ELSE Lex(a, b)

IsPrefixOf(p, k) == Len(p) <= Len(k) /\ \A i \in 1..Len(p) : p[i] = k[i]
Take(s, n) == [i \in 1..n |-> s[i]]
DropN(s, n) == [i \in 1..(Len(s) - n) |-> s[i + n]]
PrefixesOf(k) == { Take(k, m) : m \in 0..Len(k) }

\* the set of byte strings over alphabet A of length <= n
RECURSIVE StringsUpTo(_, _)
StringsUpTo(A, n) ==
    IF n = 0 THEN { <<>> }
    ELSE LET S == StringsUpTo(A, n - 1) IN
         S \cup { Append(s, a) : s \in { t \in S : Len(t) = n - 1 }, a \in A }

\* minimum / maximum of a non-empty set of naturals (local names: Min/Max clash
\* with CommunityModules)
NatMin(S) == CHOOSE x \in S : \A y \in S : x <= y
NatMax(S) == CHOOSE x \in S : \A y \in S : x >= y
=============================================================================
