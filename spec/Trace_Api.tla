------------------------------ MODULE Trace_Api ------------------------------
(* Code -> spec: validates a trace of public API calls recorded from the    *)
(* real crate against layer A (FstAbs).  One TLC step per logged event; an  *)
(* event whose logged result differs from what FstAbs defines has no        *)
(* successor, the behaviour stops there and the POSTCONDITION reports it.   *)
(*                                                                          *)
(* Large data (model contents, automaton tables, merge tables) stays in the *)
(* constant Rec; the state only holds indices into it, because TLC          *)
(* fingerprints the whole state at every step.                              *)
EXTENDS FstAbs, Json, IOUtils

Rec == ndJsonDeserialize(IOEnv.TRACE)

VARIABLES l,      \* next event to match
          mdl,    \* model id  |-> line of its Model event
          bld,    \* builder id |-> [m, count, status]
          fsts,   \* fst id    |-> model id
          auts,   \* automaton id |-> line of its AutDef event
          strm,   \* stream id |-> [m, a, from, to, pos, ws, done]
          ops     \* op id     |-> [line, pos, done]
vars == <<l, mdl, bld, fsts, auts, strm, ops>>

Empty == [x \in {} |-> 0]
Put(f, k, v) == [x \in (DOMAIN f) \cup {k} |-> IF x = k THEN v ELSE f[x]]

E == Rec[l]
IsEvent(e) == l <= Len(Rec) /\ Rec[l].ev = e /\ l' = l + 1

Items(m) == Rec[mdl[m]].items

Init == l = 1 /\ mdl = Empty /\ bld = Empty /\ fsts = Empty /\ auts = Empty /\ strm = Empty /\ ops = Empty

Reset ==
    /\ IsEvent("Reset")
    /\ mdl' = Empty /\ bld' = Empty /\ fsts' = Empty /\ auts' = Empty /\ strm' = Empty /\ ops' = Empty

\* a model content announced by the recorder: must be a content
Model ==
    /\ IsEvent("Model")
    /\ TRUE = IsContent(E.items)                \* value mode: a \A in action mode recurses per element
    /\ TRUE = (\A i \in 1..Len(E.items) : IsU64(E.items[i][2]))
    /\ mdl' = Put(mdl, E.m, l)
    /\ UNCHANGED <<bld, fsts, auts, strm, ops>>

---------------------------------------------------------------------------
(* builders (C01, C06).  acc = the first `count` items of the model.        *)
LastOf(b) == IF bld[b].count = 0 THEN None ELSE Some(Items(bld[b].m)[bld[b].count][1])

BNew ==
    /\ IsEvent("BNew")
    /\ E.m \in DOMAIN mdl
    /\ bld' = Put(bld, E.b, [m |-> E.m, count |-> 0, status |-> "open"])
    /\ UNCHANGED <<mdl, fsts, auts, strm, ops>>

\* one insert / add call: the logged result must be InsertResult; an accepted
\* call that extends the content must deliver the model's next item
CallOK(b, call, k, v, res, cnt) ==
    LET last == IF cnt = 0 THEN None ELSE Some(Items(bld[b].m)[cnt][1]) IN
    /\ res = InsertResult(call, last, k)
    /\ (res = OkRes /\ Extends(call, last, k)) =>
          /\ cnt < Len(Items(bld[b].m))
          /\ Items(bld[b].m)[cnt + 1] = <<k, v>>

BCall ==
    /\ IsEvent("BCall")
    /\ E.b \in DOMAIN bld /\ bld[E.b].status = "open"
    /\ CallOK(E.b, E.call, E.k, E.v, E.res, bld[E.b].count)
    /\ bld' = IF E.res = OkRes /\ Extends(E.call, LastOf(E.b), E.k)
              THEN [bld EXCEPT ![E.b].count = @ + 1] ELSE bld
    /\ UNCHANGED <<mdl, fsts, auts, strm, ops>>

\* extend_iter / extend_stream / from_iter: the items are consumed in order
\* and the call stops at the first rejected one with that error
RECURSIVE ExtOK(_, _, _, _, _, _)
ExtOK(b, call, items, i, cnt, res) ==
    IF i > Len(items) THEN <<res = OkRes, cnt>>
    ELSE LET last == IF cnt = 0 THEN None ELSE Some(Items(bld[b].m)[cnt][1])
             r == InsertResult(call, last, items[i][1])
         IN  IF r # OkRes THEN <<res = r, cnt>>
             ELSE IF ~Extends(call, last, items[i][1]) THEN ExtOK(b, call, items, i + 1, cnt, res)
             ELSE IF cnt < Len(Items(bld[b].m)) /\ Items(bld[b].m)[cnt + 1] = items[i]
                  THEN ExtOK(b, call, items, i + 1, cnt + 1, res)
                  ELSE <<FALSE, cnt>>
\* the same for the common case "every item accepted by insert", without
\* recursion (TLC's recursion is super-linear in depth; corpora have 10^5 items)
ExtAllOK(b, call, items, cnt) ==
    LET c == Items(bld[b].m) IN
    /\ cnt + Len(items) <= Len(c)
    /\ TRUE = (\A i \in 1..Len(items) :
          /\ c[cnt + i] = items[i]
          /\ InsertResult(call, IF i = 1 THEN (IF cnt = 0 THEN None ELSE Some(c[cnt][1]))
                                          ELSE Some(items[i - 1][1]), items[i][1]) = OkRes)

BExt ==
    /\ IsEvent("BExt")
    /\ E.b \in DOMAIN bld /\ bld[E.b].status = "open"
    /\ IF E.res = OkRes /\ E.call = "insert" /\ Len(E.items) > 300
       THEN /\ ExtAllOK(E.b, E.call, E.items, bld[E.b].count)
            /\ bld' = [bld EXCEPT ![E.b].count = @ + Len(E.items)]
       ELSE LET r == ExtOK(E.b, E.call, E.items, 1, bld[E.b].count, E.res) IN
            /\ r[1]
            /\ bld' = [bld EXCEPT ![E.b].count = r[2]]
    /\ UNCHANGED <<mdl, fsts, auts, strm, ops>>

\* finish: the produced FST holds exactly the accepted items
BFinish ==
    /\ IsEvent("BFinish")
    /\ E.b \in DOMAIN bld /\ bld[E.b].status = "open"
    /\ E.res = OkRes
    /\ bld[E.b].count = Len(Items(bld[E.b].m))
    /\ bld' = [bld EXCEPT ![E.b].status = "finished"]
    /\ fsts' = Put(fsts, E.f, bld[E.b].m)
    /\ UNCHANGED <<mdl, auts, strm, ops>>

\* an FST obtained otherwise (a spec-encoded file, a CLI output) whose content
\* the recorder claims to be model m; everything observed later checks it
Have ==
    /\ IsEvent("Have")
    /\ E.m \in DOMAIN mdl
    /\ fsts' = Put(fsts, E.f, E.m)
    /\ UNCHANGED <<mdl, bld, auts, strm, ops>>

Open ==
    /\ IsEvent("Open")
    /\ E.f \in DOMAIN fsts
    /\ E.res = OkRes
    /\ E.len = Len(Items(fsts[E.f]))
    /\ E.empty = (Len(Items(fsts[E.f])) = 0)
    /\ UNCHANGED <<mdl, bld, fsts, auts, strm, ops>>

\* verify() on an FST that opened: versions 1 and 2 carry no checksum (C10)
VerifyEv ==
    /\ IsEvent("Verify")
    /\ E.f \in DOMAIN fsts
    /\ E.res = IF E.version < 3 THEN [err |-> "ChecksumMissing"] ELSE OkRes
    /\ UNCHANGED <<mdl, bld, fsts, auts, strm, ops>>

---------------------------------------------------------------------------
(* lookups (C02), get_key (C16) *)
Get ==
    /\ IsEvent("Get")
    /\ E.f \in DOMAIN fsts
    /\ LET c == Items(fsts[E.f]) IN
       /\ RankOK(c, E.k, E.rank)
       /\ E.res = LookupAt(c, E.k, E.rank)
    /\ UNCHANGED <<mdl, bld, fsts, auts, strm, ops>>

ContainsEv ==
    /\ IsEvent("Contains")
    /\ E.f \in DOMAIN fsts
    /\ LET c == Items(fsts[E.f]) IN
       /\ RankOK(c, E.k, E.rank)
       /\ E.res = (LookupAt(c, E.k, E.rank) # None)
    /\ UNCHANGED <<mdl, bld, fsts, auts, strm, ops>>

\* recorded only for models whose values strictly increase (checked once, at
\* the IncModel event)
IncModel ==
    /\ IsEvent("IncModel")
    /\ ValuesIncrease(Items(E.m))
    /\ UNCHANGED <<mdl, bld, fsts, auts, strm, ops>>

GetKey ==
    /\ IsEvent("GetKey")
    /\ E.f \in DOMAIN fsts
    /\ LET c == Items(fsts[E.f])
           want == InverseAt(c, E.v, E.rank) IN
       /\ VRankOK(c, E.v, E.rank)
       /\ E.found = (want # None)
       \* get_key_into appends exactly the key to the caller's buffer
       /\ (want # None => E.buf = E.prefix \o want[1])
    /\ UNCHANGED <<mdl, bld, fsts, auts, strm, ops>>

---------------------------------------------------------------------------
(* streams (C01, C03, C04) *)
AutDef ==
    /\ IsEvent("AutDef")
    /\ auts' = Put(auts, E.a, l)
    /\ UNCHANGED <<mdl, bld, fsts, strm, ops>>

SeqRange(q) == { q[i] : i \in 1..Len(q) }
AutRec(e) == [n |-> e.n, start |-> e.start, cls |-> e.cls, delta |-> e.delta,
              match |-> SeqRange(e.match), can |-> SeqRange(e.can), always |-> SeqRange(e.always), eof |-> e.eof]
AutOf(s) == IF s.a = None THEN None ELSE Some(AutRec(Rec[auts[s.a[1]]]))

SNew ==
    /\ IsEvent("SNew")
    /\ E.f \in DOMAIN fsts
    /\ (E.a # None => E.a[1] \in DOMAIN auts)
    /\ LET c == Items(fsts[E.f]) IN
       /\ FromOK(c, EffLo(E.bounds), E.from)
       /\ ToOK(c, EffHi(E.bounds), E.to)
    /\ strm' = Put(strm, E.s, [m |-> fsts[E.f], a |-> E.a, from |-> E.from, to |-> E.to,
                               pos |-> 0, done |-> FALSE])
    /\ UNCHANGED <<mdl, bld, fsts, auts, ops>>

SNext ==
    /\ IsEvent("SNext")
    /\ E.s \in DOMAIN strm
    /\ \E s \in {strm[E.s]} : \E A \in {AutOf(s)} :
       LET c == Items(s.m) IN
       \* (a finished stream stays finished: further calls return None)
       /\ IF s.done THEN E.idx = 0 ELSE NextOK(c, s.from, s.to, A, s.pos, E.idx)
       /\ IF E.idx = 0 THEN E.res = None
          ELSE /\ E.res # None
               /\ E.res[1][1] = c[E.idx][1]
               /\ E.res[1][2] = c[E.idx][2]
               \* search_with_state: the automaton state after the key
               /\ (Len(E.res[1]) = 3 => A # None /\ E.res[1][3] = ARun(A[1], c[E.idx][1]))
       /\ strm' = [strm EXCEPT ![E.s].pos = IF E.idx = 0 THEN @ ELSE E.idx,
                               ![E.s].done = (s.done \/ E.idx = 0)]
    /\ UNCHANGED <<mdl, bld, fsts, auts, ops>>

---------------------------------------------------------------------------
(* set operations (C05) *)
InsOf(e) == [j \in 1..Len(e.ins) |-> Items(e.ins[j])]
\* the logged table: rows <<key, <<<<idx, val>>, ...>>>>; holders as a set
TableOf(e) == [i \in 1..Len(e.table) |->
                 <<e.table[i][1], { e.table[i][2][n] : n \in 1..Len(e.table[i][2]) }>>]

ONew ==
    /\ IsEvent("ONew")
    /\ \A j \in 1..Len(E.ins) : E.ins[j] \in DOMAIN mdl
    /\ TRUE = IsMergeTable(TableOf(E), InsOf(E))
    /\ ops' = Put(ops, E.o, [line |-> l, pos |-> 0, done |-> FALSE])
    /\ UNCHANGED <<mdl, bld, fsts, auts, strm>>

ONext ==
    /\ IsEvent("ONext")
    /\ E.o \in DOMAIN ops
    /\ LET o == ops[E.o]
           e == Rec[o.line]
           T == TableOf(e)
           K == Len(e.ins) IN
       /\ IF o.done THEN E.idx = 0 ELSE OpNextOK(e.op, T, K, o.pos, E.idx)
       /\ IF E.idx = 0 THEN E.res = None
          ELSE /\ E.res # None
               /\ E.res[1][1] = T[E.idx][1]
               \* exactly one <<index, value>> per reported stream
               /\ { E.res[1][2][n] : n \in 1..Len(E.res[1][2]) } = OpOuts(e.op, T[E.idx][2])
               /\ Len(E.res[1][2]) = Cardinality(OpOuts(e.op, T[E.idx][2]))
       /\ ops' = [ops EXCEPT ![E.o].pos = IF E.idx = 0 THEN @ ELSE E.idx,
                             ![E.o].done = (o.done \/ E.idx = 0)]
    /\ UNCHANGED <<mdl, bld, fsts, auts, strm>>

PredEv ==
    /\ IsEvent("Pred")
    /\ E.f \in DOMAIN fsts /\ E.other \in DOMAIN mdl
    /\ LET a == Items(fsts[E.f])
           b == Items(E.other) IN
       E.res = CASE E.p = "is_disjoint" -> IsDisjoint(a, b)
                 [] E.p = "is_subset" -> IsSubset(a, b)
                 [] E.p = "is_superset" -> IsSuperset(a, b)
    /\ UNCHANGED <<mdl, bld, fsts, auts, strm, ops>>

---------------------------------------------------------------------------
(* Scale (C01: "thousands to millions of keys"; also C02, C16): one map of  *)
(* 1.3 million keys, above 16 MiB, so that transition addresses need four   *)
(* bytes.  Its content is a function of the position that the specification *)
(* computes itself - no model has to be shipped: the recorder logs the      *)
(* length, the number of streamed entries and a sample of positions.        *)
BigKey(i) ==
    LET a == (i * 1103) % 65521
        b == (i * 977 + 12345) % 65519
        c == (i * 733 + 7) % 65497
    IN  << (i \div 65536) % 256, (i \div 256) % 256, i % 256, a \div 256, a % 256, b \div 256, b % 256,
           c \div 256, c % 256, (a + 3 * b) % 251, (b + 5 * c) % 241 >>
BigVal(i) == UFromNat(i * 7 + 1)
Big ==
    /\ IsEvent("Big")
    /\ CASE E.what = "len" -> /\ E.len = E.n /\ E.count = E.n /\ E.empty = (E.n = 0)
                              /\ E.size > 16777216          \* (else the scenario does not reach 4-byte addresses)
         [] E.what = "item" -> /\ E.i < E.n /\ E.k = BigKey(E.i) /\ E.v = BigVal(E.i)   \* the i-th entry of the full stream
         [] E.what = "get" -> /\ E.k = BigKey(E.i) /\ E.res = <<BigVal(E.i)>> /\ E.contains
         [] E.what = "miss" -> /\ E.k = BigKey(E.i) \o <<0>> /\ E.res = <<>> /\ ~E.contains
         [] E.what = "getkey" -> /\ E.v = BigVal(E.i) /\ E.res = <<BigKey(E.i)>>
         [] E.what = "nokey" -> /\ E.v = UFromNat(E.i * 7 + 2) /\ E.res = <<>>          \* between two values
    /\ UNCHANGED <<mdl, bld, fsts, auts, strm, ops>>

Next == \/ Reset \/ Model \/ BNew \/ BCall \/ BExt \/ BFinish \/ Have \/ Open
        \/ VerifyEv \/ Get \/ ContainsEv \/ IncModel \/ GetKey
        \/ AutDef \/ SNew \/ SNext \/ ONew \/ ONext \/ PredEv \/ Big

Spec == Init /\ [][Next]_vars

\* acceptance: every event was matched; otherwise report the first that was not
Accepted ==
    LET d == TLCGet("stats").diameter IN
    IF d - 1 = Len(Rec) THEN PrintT(<<"TRACE-ACCEPTED", Len(Rec)>>)
    ELSE PrintT(<<"TRACE-REJECTED", d, ToJson(Rec[d])>>) /\ FALSE
=============================================================================
