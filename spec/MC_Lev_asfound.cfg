SPECIFICATION Spec
CONSTANTS
  Enc <- EncDef
  MaxQ = 1
  MaxK = 1
  MaxD = 2
  Fixed = FALSE
  Limit = 10000
INVARIANTS DfaOK RowOK
CHECK_DEADLOCK FALSE
