SPECIFICATION Spec
CONSTANTS
  Syms <- SymsDef
  Stride = 13
INVARIANTS AllSound AllLang
CHECK_DEADLOCK FALSE
