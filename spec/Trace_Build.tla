----------------------------- MODULE Trace_Build -----------------------------
(* Code -> spec for the node cache and determinism (C12, C15), from the     *)
(* compile tap (hook H2): every node handed to the node compiler with what  *)
(* happened to it - shared empty final node, found in the cache (with the   *)
(* address returned), or emitted - and whether the lookup overwrote an      *)
(* occupied cache cell.  The predicates are FstBuilder's property-level     *)
(* invariants (HitSound, NoDupUnlessEvicted, Backward, TrieBound, Minimal), *)
(* stated on the observed events; they are insensitive to the cache's       *)
(* geometry, hash function and replacement policy.                          *)
EXTENDS Bytes, U64, TLC, Json, IOUtils

Rec == ndJsonDeserialize(IOEnv.TRACE)

VARIABLES l,
          at,        \* address |-> node emitted there (this builder)
          lastEmit,  \* node |-> number of evictions seen when it was last emitted
          evs,       \* evictions so far
          cells,     \* cache capacity of this builder (0: rejecting registry)
          digest     \* C15: input |-> digest of the bytes every build of it must produce
vars == <<l, at, lastEmit, evs, cells, digest>>

E == Rec[l]
IsEvent(e) == l <= Len(Rec) /\ Rec[l].ev = e /\ l' = l + 1
Empty == [x \in {} |-> 0]
Put(f, k, v) == [x \in (DOMAIN f) \cup {k} |-> IF x = k THEN v ELSE f[x]]

Init == l = 1 /\ at = Empty /\ lastEmit = Empty /\ evs = 0 /\ cells = 0 /\ digest = Empty

TNew == /\ IsEvent("TNew")
        /\ at' = Empty /\ lastEmit' = Empty /\ evs' = 0 /\ cells' = E.cells
        /\ UNCHANGED digest

IsEmptyFinal(n) == n.final /\ n.trans = <<>> /\ n.fout = <<>>

Compile ==
    /\ IsEvent("Compile")
    /\ \E n \in {E.node} :
       \* children are compiled before their parents
       /\ TRUE = (\A i \in 1..Len(n.trans) : n.trans[i][3] = 0 \/ n.trans[i][3] \in DOMAIN at)
       /\ CASE E.kind = 0 -> /\ IsEmptyFinal(n) /\ E.addr = 0
                             /\ UNCHANGED <<at, lastEmit>>
            \* HitSound: a cache hit returns the address of an identical node
            [] E.kind = 1 -> /\ ~IsEmptyFinal(n)
                             /\ E.addr \in DOMAIN at /\ at[E.addr] = n
                             /\ UNCHANGED <<at, lastEmit>>
            [] E.kind = 2 -> /\ ~IsEmptyFinal(n)
                             /\ E.addr \notin DOMAIN at
                             /\ TRUE = (\A a \in DOMAIN at : a < E.start)
                             \* Backward: transitions point to earlier nodes
                             /\ TRUE = (\A i \in 1..Len(n.trans) : n.trans[i][3] < E.start)
                             \* NoDupUnlessEvicted: an equal node is emitted again only if
                             \* the cache evicted something since its last emission
                             /\ (n \in DOMAIN lastEmit /\ cells # 0 => evs > lastEmit[n])
                             /\ at' = Put(at, E.addr, n)
                             /\ lastEmit' = Put(lastEmit, n, evs)
       /\ evs' = evs + (IF E.evicted THEN 1 ELSE 0)
    /\ UNCHANGED <<cells, digest>>

KeysOf(items) == { items[i][1] : i \in 1..Len(items) }
PrefixSet(K) == UNION { PrefixesOf(k) : k \in K }
RightLang(K, p) == { DropN(k, Len(p)) : k \in { k \in K : IsPrefixOf(p, k) } }
\* states of the minimal acyclic DFA of K, not counting the shared empty final node
MinimalNodes(K) == Cardinality({ RightLang(K, p) : p \in PrefixSet(K) \cup {<<>>} } \ {{<<>>}})

TDone ==
    /\ IsEvent("TDone")
    /\ E.evictions = evs
    /\ E.nodes = Cardinality(DOMAIN at)
    /\ (E.small =>
          \E K \in {KeysOf(E.items)} :
             \* TrieBound
             /\ (K = {} \/ E.nodes <= Cardinality(PrefixSet(K)))
             \* a set built without eviction is the minimal acyclic DFA of its keys
             /\ (E.set /\ evs = 0 /\ cells # 0 => E.nodes = MinimalNodes(K)))
    /\ UNCHANGED <<at, lastEmit, evs, cells, digest>>

\* validation of the recorder's transcribed oracle against the specification
RL ==
    /\ IsEvent("RL")
    /\ \E K \in {{ E.keys[i] : i \in 1..Len(E.keys) }} :
          /\ E.minimal = MinimalNodes(K)
          /\ E.trie = Cardinality(PrefixSet(K) \cup {<<>>})
    /\ UNCHANGED <<at, lastEmit, evs, cells, digest>>

\* corpora: the no-eviction build has exactly the minimal number of nodes (first
\* clause at corpus scale) and the default geometry realises most of the sharing
Corpus ==
    /\ IsEvent("Corpus")
    /\ E.noevict_evictions = 0
    /\ E.noevict_nodes = E.minimal
    /\ E.nodes <= E.trie
    /\ E.nodes >= E.minimal
    /\ (E.trie - E.nodes) * 100 >= E.threshold * (E.trie - E.minimal)
    /\ UNCHANGED <<at, lastEmit, evs, cells, digest>>

\* C15: every build of the same (type, sequence) yields the same bytes
Built ==
    /\ IsEvent("Built")
    /\ IF E.input \in DOMAIN digest THEN digest[E.input] = E.digest /\ UNCHANGED digest
       ELSE digest' = Put(digest, E.input, E.digest)
    /\ UNCHANGED <<at, lastEmit, evs, cells>>

Next == TNew \/ Compile \/ TDone \/ RL \/ Corpus \/ Built
Spec == Init /\ [][Next]_vars

Accepted ==
    LET d == TLCGet("stats").diameter IN
    IF d - 1 = Len(Rec) THEN PrintT(<<"TRACE-ACCEPTED", Len(Rec)>>)
    ELSE PrintT(<<"TRACE-REJECTED", d>>) /\ FALSE
=============================================================================
