SPECIFICATION Spec
CONSTANT Syms <- TraceSyms
POSTCONDITION Accepted
CHECK_DEADLOCK FALSE
