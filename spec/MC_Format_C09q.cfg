SPECIFICATION Spec
CONSTANTS
  Modes = {"nodes","wide"}
  MaxDist = 64
  Versions = {3}
INVARIANTS CrcOK NodesOK WideOK FilesOK SyndromeOK
CHECK_DEADLOCK FALSE
