------------------------------ MODULE FstReader ------------------------------
(* Layer B: the reader of src/raw/mod.rs over a node graph: point lookups    *)
(* (get, contains_key, get_key) and the stream machine - seek_min (one byte  *)
(* of the lower bound per step: the found branch, the not-found branch with  *)
(* "first larger sibling"; inclusive: step back one, exclusive: descend) and *)
(* next_with (pop / prune on can_match / step / push / upper-bound cut-off). *)
(* The graph is the prefix trie of a key set with the outputs placed either  *)
(* all on final outputs ("final") or pushed toward the root ("push", what    *)
(* the builder produces); values are Val(k).                                 *)
EXTENDS Naturals, Sequences, FiniteSets, TLC, SequencesExt
\* Stream machine of raw/mod.rs (seek_min + next_with) over a trie-shaped node graph.
CONSTANTS Universe,      \* set of candidate keys (sequences over Sym)
          Sym,           \* input bytes
          MaxKeys, BoundKeys, Placement
RECURSIVE Lex(_,_)
Lex(a,b) == IF a = <<>> THEN b # <<>> ELSE IF b = <<>> THEN FALSE ELSE IF a[1] < b[1] THEN TRUE ELSE IF a[1] > b[1] THEN FALSE ELSE Lex(Tail(a),Tail(b))
Leq(a,b) == a = b \/ Lex(a,b)
Val(k) == 3 * Len(k) + (IF k = <<>> THEN 7 ELSE k[1])     \* distinguishing values
\* ---- graph: node ids are key prefixes
Pre(K) == UNION { { SubSeq(k,1,m) : m \in 0..Len(k) } : k \in K }
Inputs(K, p) == { b \in Sym : Append(p,b) \in Pre(K) }
SortedInputs(K,p) == SetToSortSeq(Inputs(K,p), <)
Below(K,p) == { k \in K : Len(k) >= Len(p) /\ SubSeq(k,1,Len(p)) = p }
MinBelow(K,p) == LET V == { Val(k) : k \in Below(K,p) } IN CHOOSE v \in V : \A w \in V : v <= w
Acc(K,p) == IF p = <<>> \/ Placement = "final" THEN 0 ELSE MinBelow(K,p)
TransOut(K, p, b) == IF Placement = "final" THEN 0 ELSE MinBelow(K, Append(p,b)) - Acc(K,p)
FinalOut(K, p) == IF p \notin K THEN 0 ELSE Val(p) - Acc(K,p)
NodeLen(K,p) == Cardinality(Inputs(K,p))
Trans(K,p,i) == LET b == SortedInputs(K,p)[i+1] IN [inp |-> b, out |-> TransOut(K,p,b), addr |-> Append(p,b)]
FindInput(K,p,b) == IF b \in Inputs(K,p) THEN CHOOSE i \in 0..(NodeLen(K,p)-1) : SortedInputs(K,p)[i+1] = b ELSE -1
\* ---- automaton = [start, delta, match, can, eof]
\* eof[s] = 0, or the state the automaton's end-of-key hook (accept_eof) moves to from s: the
\* reader asks the hook when the node just entered is final and takes the verdict from the
\* hook's state, while the state pushed on the stack and reported stays s.  As coded, the hook
\* is not asked for the empty key.
EofMatch(A, s) == IF A.eof[s] # 0 THEN A.eof[s] \in A.match ELSE s \in A.match
Run(A, k) == LET RECURSIVE R(_,_) R(s,i) == IF i > Len(k) THEN s ELSE R(A.delta[s][k[i]], i+1) IN R(A.start, 1)
\* ---- bounds: <<"none">>, <<"inc",k>>, <<"exc",k>>
Exceeded(hi, k) == CASE hi[1] = "inc" -> Lex(hi[2], k) [] hi[1] = "exc" -> Leq(hi[2], k) [] OTHER -> FALSE
BEmpty(lo) == lo[1] = "none" \/ lo[2] = <<>>
\* ---- seek_min
RECURSIVE Seek(_,_,_,_,_,_,_,_)
Seek(K, A, key, i, node, out, aut, acc) ==   \* acc = [stack, inp]
  IF i > Len(key) THEN [stack |-> acc.stack, inp |-> acc.inp, node |-> node, out |-> out, aut |-> aut, full |-> TRUE]
  ELSE LET b == key[i] j == FindInput(K,node,b) IN
    IF j >= 0 THEN
       LET t == Trans(K,node,j) IN
       Seek(K, A, key, i+1, t.addr, out + t.out, A.delta[aut][b],
            [stack |-> Append(acc.stack, [node |-> node, trans |-> j+1, out |-> out, aut |-> aut]), inp |-> Append(acc.inp, b)])
    ELSE LET bigger == { x \in 0..(NodeLen(K,node)-1) : SortedInputs(K,node)[x+1] > b }
             pos == IF bigger = {} THEN NodeLen(K,node) ELSE CHOOSE x \in bigger : \A y \in bigger : x <= y IN
       [stack |-> Append(acc.stack, [node |-> node, trans |-> pos, out |-> out, aut |-> aut]), inp |-> acc.inp, node |-> node, out |-> out, aut |-> aut, full |-> FALSE]
SeekMin(K, A, lo) ==
  IF BEmpty(lo) THEN
     [stack |-> << [node |-> <<>>, trans |-> 0, out |-> 0, aut |-> A.start] >>, inp |-> <<>>,
      empty |-> IF lo[1] # "exc" /\ <<>> \in K THEN <<FinalOut(K,<<>>)>> ELSE <<>>]
  ELSE LET r == Seek(K, A, lo[2], 1, <<>>, 0, A.start, [stack |-> <<>>, inp |-> <<>>]) IN
     IF ~r.full THEN [stack |-> r.stack, inp |-> r.inp, empty |-> <<>>]
     ELSE LET n == Len(r.stack) IN
       IF lo[1] = "inc" THEN [stack |-> [r.stack EXCEPT ![n].trans = @ - 1], inp |-> SubSeq(r.inp,1,Len(r.inp)-1), empty |-> <<>>]
       ELSE [stack |-> Append(r.stack, [node |-> r.node, trans |-> 0, out |-> r.out, aut |-> r.aut]), inp |-> r.inp, empty |-> <<>>]
\* ---- next_with: returns [stack, inp, item] ; item = <<>> (None) or <<[key,val,st]>>
RECURSIVE Loop(_,_,_,_,_)
Loop(K, A, hi, stack, inp) ==
  IF stack = <<>> THEN [stack |-> <<>>, inp |-> inp, item |-> <<>>]
  ELSE LET n == Len(stack) st == stack[n] rest == SubSeq(stack,1,n-1) IN
    IF st.trans >= NodeLen(K, st.node) \/ st.aut \notin A.can THEN
       Loop(K, A, hi, rest, IF st.node # <<>> THEN SubSeq(inp,1,Len(inp)-1) ELSE inp)
    ELSE LET t == Trans(K, st.node, st.trans) out == st.out + t.out
             ns == A.delta[st.aut][t.inp] inp2 == Append(inp, t.inp)
             stack2 == rest \o << [st EXCEPT !.trans = @ + 1], [node |-> t.addr, trans |-> 0, out |-> out, aut |-> ns] >> IN
       IF Exceeded(hi, inp2) THEN [stack |-> <<>>, inp |-> inp2, item |-> <<>>]
       ELSE IF t.addr \in K /\ EofMatch(A, ns) THEN [stack |-> stack2, inp |-> inp2, item |-> << [key |-> inp2, val |-> out + FinalOut(K,t.addr), st |-> ns] >>]
       ELSE Loop(K, A, hi, stack2, inp2)
VARIABLES K, A, lo, hi, stack, inp, empty, outs, pc
vars == <<K, A, lo, hi, stack, inp, empty, outs, pc>>
CONSTANT Automata
Bounds(kinds) == {<<"none">>} \cup { <<kd, k>> : kd \in kinds, k \in BoundKeys }
Init == /\ K \in { S \in SUBSET Universe : Cardinality(S) <= MaxKeys } /\ A \in Automata
        /\ lo \in Bounds({"inc","exc"}) /\ hi \in Bounds({"inc","exc"})
        /\ pc = "new" /\ stack = <<>> /\ inp = <<>> /\ empty = <<>> /\ outs = <<>>
DoSeek ==
  /\ pc = "new"
  /\ LET r == SeekMin(K, A, lo) IN stack' = r.stack /\ inp' = r.inp /\ empty' = r.empty
  /\ pc' = "run"
  /\ UNCHANGED <<K, A, lo, hi, outs>>
NextCall ==
  /\ pc = "run"
  /\ IF empty # <<>> /\ Exceeded(hi, <<>>) THEN stack' = <<>> /\ empty' = <<>> /\ pc' = "end" /\ UNCHANGED <<inp, outs>>
     ELSE IF empty # <<>> /\ A.start \in A.match THEN
          /\ outs' = Append(outs, [key |-> <<>>, val |-> empty[1], st |-> A.start]) /\ empty' = <<>> /\ UNCHANGED <<stack, inp, pc>>
     ELSE LET r == Loop(K, A, hi, stack, inp) IN
          /\ stack' = r.stack /\ inp' = r.inp /\ empty' = <<>>
          /\ IF r.item = <<>> THEN pc' = "end" /\ UNCHANGED outs ELSE outs' = Append(outs, r.item[1]) /\ UNCHANGED pc
  /\ UNCHANGED <<K, A, lo, hi>>
Next == DoSeek \/ NextCall
Spec == Init /\ [][Next]_vars
\* ---- abstract definition
InLo(k) == CASE lo[1] = "inc" -> Leq(lo[2], k) [] lo[1] = "exc" -> Lex(lo[2], k) [] OTHER -> TRUE
AcceptsKey(k) == IF k = <<>> THEN A.start \in A.match ELSE EofMatch(A, Run(A, k))
Want == SetToSortSeq({ k \in K : InLo(k) /\ ~Exceeded(hi, k) /\ AcceptsKey(k) }, Lex)
Correct == pc = "end" => /\ Len(outs) = Len(Want)
                         /\ \A i \in 1..Len(outs) : outs[i].key = Want[i] /\ outs[i].val = Val(Want[i]) /\ outs[i].st = Run(A, Want[i])
\* lock step: non-root frames = Len(inp) ; each frame's aut = run on the prefix
LockStep == pc = "run" /\ stack # <<>> => /\ Len(stack) - 1 = Len(inp) \/ Len(stack) = Len(inp)
\* ---- point lookups as coded
RECURSIVE GetFrom(_,_,_,_,_)
GetFrom(KK, key, i, node, out) ==
  IF i > Len(key) THEN (IF node \in KK THEN <<out + FinalOut(KK, node)>> ELSE <<>>)
  ELSE LET j == FindInput(KK, node, key[i]) IN
       IF j < 0 THEN <<>> ELSE LET t == Trans(KK, node, j) IN GetFrom(KK, key, i + 1, t.addr, out + t.out)
Get(KK, key) == GetFrom(KK, key, 1, <<>>, 0)
RECURSIVE ContainsFrom(_,_,_,_)
ContainsFrom(KK, key, i, node) ==
  IF i > Len(key) THEN node \in KK
  ELSE LET j == FindInput(KK, node, key[i]) IN IF j < 0 THEN FALSE ELSE ContainsFrom(KK, key, i + 1, Trans(KK, node, j).addr)
\* get_key_into (repaired, D6): descend along the last transition whose output fits, stop when
\* the node is final and its final output equals the remaining value
RECURSIVE GetKeyFrom(_,_,_,_,_)
GetKeyFrom(KK, node, value, key, fuel) ==
  IF node \in KK /\ FinalOut(KK, node) = value THEN <<key>>
  ELSE IF fuel = 0 THEN <<>>
  ELSE LET fits == { x \in 0..(NodeLen(KK, node) - 1) : Trans(KK, node, x).out <= value /\ \A y \in 0..x : Trans(KK, node, y).out <= value } IN
       IF fits = {} THEN <<>>
       ELSE LET x == CHOOSE z \in fits : \A y \in fits : y <= z
                t == Trans(KK, node, x) IN GetKeyFrom(KK, t.addr, value - t.out, Append(key, t.inp), fuel - 1)
GetKey(KK, value) == GetKeyFrom(KK, <<>>, value, <<>>, 8)
\* C02: lookups agree with the key set for every probe
Probes == Universe \cup { Append(k, b) : k \in Universe, b \in Sym }
LookupOK == pc = "new" => \A p \in Probes : /\ Get(K, p) = (IF p \in K THEN <<Val(p)>> ELSE <<>>)
                                             /\ ContainsFrom(K, p, 1, <<>>) = (p \in K)
\* C16: Val increases with the keys when they are taken in Lex order only for some sets; check
\* the inverse on exactly those
SortedKeys == SetToSortSeq(K, Lex)
Increasing == \A i \in 1..(Len(SortedKeys) - 1) : Val(SortedKeys[i]) < Val(SortedKeys[i + 1])
GetKeyOK == (pc = "new" /\ Increasing /\ Placement = "push") =>
              \A v \in 0..20 : GetKey(K, v) = (IF \E k \in K : Val(k) = v THEN <<CHOOSE k \in K : Val(k) = v>> ELSE <<>>)
=============================================================================
