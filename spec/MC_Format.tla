----------------------------- MODULE MC_Format -----------------------------
(* Exhaustive small-scope checks of the format specification itself:        *)
(*  - the three CRC-32C formulations agree, for every chunking;             *)
(*  - decode(encode(node)) = node for every node shape in scope, at every   *)
(*    delta width the scope reaches, in versions 1-3;                       *)
(*  - the reference encoder's files read back, by the format alone, to the  *)
(*    content, in versions 1-3 and both output placements;                  *)
(*  - single-byte corruption of the checksummed part always changes the     *)
(*    CRC (by linearity: for every error pattern and distance, C08).        *)
EXTENDS FstFormat, SequencesExt

CONSTANTS Modes,      \* which groups of checks to run
          MaxDist,    \* C08: largest distance (bytes) of the syndrome argument
          Versions    \* versions for the node round trips
VARIABLES mode, pc, x, TS
vars == <<mode, pc, x, TS>>
T0 == TS[1]

\* ---- data patterns for the CRC checks
Pat(kind, n) == [i \in 1..n |-> CASE kind = 1 -> (i * 37 + 11) % 256
                                  [] kind = 2 -> 255
                                  [] kind = 3 -> 0
                                  [] OTHER -> (i * i * 7 + kind) % 256]
CrcCases == { <<kind, n, cut>> : kind \in 1..4, n \in {0, 1, 2, 3, 15, 16, 17, 31, 32, 33, 47, 48, 49, 64}, cut \in {0, 1, 5, 16, 17} }

CrcAgree(kind, n, cut) ==
    LET d == Pat(kind, n)
        c == IF cut > n THEN n ELSE cut
        a == SubSeq(d, 1, c)
        b == SubSeq(d, c + 1, n) IN
    /\ Crc32cTable(T0, d) = Crc32cBitwise(d)
    /\ Crc32cSlice16(TS, d) = Crc32cBitwise(d)
    \* chunking independence of all three update forms
    /\ Crc32cUpdate(T0, Crc32cUpdate(T0, <<0, 0, 0, 0>>, a), b) = Crc32cTable(T0, d)
    /\ Crc32cSlice16Update(TS, Crc32cSlice16Update(TS, <<0, 0, 0, 0>>, a), b) = Crc32cTable(T0, d)
    /\ Crc32cBitwiseUpdate(Crc32cBitwiseUpdate(<<0, 0, 0, 0>>, a), b) = Crc32cTable(T0, d)

\* "123456789" -> 0xE3069283
KnownVector == /\ Crc32cTable(T0, <<49, 50, 51, 52, 53, 54, 55, 56, 57>>) = <<131, 146, 6, 227>>
               /\ Crc32cBitwise(<<49, 50, 51, 52, 53, 54, 55, 56, 57>>) = <<131, 146, 6, 227>>
               /\ Crc32cSlice16(TS, Pat(1, 40)) = Crc32cBitwise(Pat(1, 40))
\* masking of 0 and of a value with carries
ASSUME Mask(<<0, 0, 0, 0>>) = <<216, 234, 130, 162>>
ASSUME \A j \in 1..256 : CommonCode(CommonInv[j]) = (IF j <= 63 THEN j ELSE 0)

\* ---- node shapes
Outs == {UZero, <<1>>, <<0, 1>>, <<0, 0, 0, 0, 1>>, <<255, 255, 255, 255, 255, 255, 255, 255>>}
Inputs == {0, 97, 255}
Start == 70000          \* the node's first byte
Targets == {0, Start - 1, Start - 200, Start - 300, Start - 66000}   \* deltas of 1, 1, 2 and 3 bytes
TransOf(ins) == { t \in [1..Len(ins) -> [inp : Inputs, out : Outs, addr : Targets]] : \A i \in 1..Len(ins) : t[i].inp = ins[i] }
SmallNodes ==
    UNION { { [final |-> f, fout |-> fo, trans |-> t] : f \in BOOLEAN, fo \in Outs, t \in TransOf(ins) }
            : ins \in {<<>>, <<0>>, <<97>>, <<255>>, <<0, 97>>, <<97, 255>>} }
WideNode(nt, f, o, ts) ==
    [final |-> f, fout |-> IF f THEN o ELSE UZero,
     trans |-> [i \in 1..nt |-> [inp |-> i - 1 + (256 - nt), out |-> IF i % 2 = 0 THEN o ELSE UZero,
                                 addr |-> IF ts = 0 THEN 0 ELSE Start - 1 - ((i * ts) % 60000)]]]
SortByInp(n) == [n EXCEPT !.trans = SortSeq(n.trans, LAMBDA p, q : p.inp < q.inp)]
WideNodes == { SortByInp(WideNode(nt, f, o, ts)) : nt \in {32, 33, 63, 64, 255, 256}, f \in BOOLEAN, o \in {UZero, <<0, 1>>}, ts \in {0, 1, 300} }

NodeWellFormed(n) == (~n.final => n.fout = UZero)
RoundTrip(n, version, last) ==
    LET enc == EncodeNode(n, Start, last, version)
        b == [i \in 1..Start |-> 0] \o enc
        d == DecodeNode(b, Len(b) - 1, version) IN
    IF IsEmptyFinal(n) THEN TRUE
    ELSE /\ d.ok /\ d.start = Start
         /\ d.final = n.final /\ d.fout = n.fout /\ d.trans = n.trans
         /\ IndexOK(b, Len(b) - 1, version, d)

\* ---- files
Sym == {97, 255}
Universe == StringsUpTo(Sym, 2)
Vals == {UZero, <<7>>, <<0, 1>>}
Contents == UNION { { [i \in 1..Len(ks) |-> <<ks[i], v[i]>>] : v \in [1..Len(ks) -> Vals] }
                    : ks \in { SetToSortSeq(S, Lex) : S \in { T \in SUBSET Universe : Cardinality(T) <= 3 } } }

RECURSIVE ChainOK(_, _, _, _)
ChainOK(b, version, addr, pend) ==
    LET n == DecodeNode(b, addr, version) IN
    /\ NodeOK(b, addr, version, n)
    /\ n.start >= 16
    /\ LET p2 == (pend \ {addr}) \cup { n.trans[i].addr : i \in 1..Len(n.trans) } IN
       IF n.start = 16 THEN p2 \subseteq {0} ELSE ChainOK(b, version, n.start - 1, p2)

FileOK(c, version, placement) ==
    LET b == EncodeFile(T0, c, version, 5, placement)
        end == FooterEnd(b, version)
        root == RootAddr(b, version) IN
    /\ "Ok" \in OpenClasses(b)
    /\ VersionOf(b) = <<version>> /\ TypeOf(b) = <<5>>
    /\ NumKeys(b, version) = UFromNat(Len(c))
    /\ (version >= 3 => StoredSum(b) = ExpectedSum(T0, b))
    /\ Lang(b, version) = { <<c[i][1], c[i][2]>> : i \in 1..Len(c) }
    /\ IF root = 0 THEN end - 16 = 16 ELSE root = end - 17 /\ ChainOK(b, version, root, {})
    /\ \A i \in 1..Len(c) : GetByFormat(b, version, c[i][1]) = Some(c[i][2])

\* ---- C08: CRC is affine over GF(2), so crc(d xor e) xor crc(d) depends only on
\* the error pattern e and its distance from the end.  The syndrome of a
\* single-byte error e at distance `dist` is the register after feeding e
\* followed by `dist` zero bytes into an all-zero register; it is non-zero
\* for every e # 0 and every distance, hence every single-byte alteration of
\* the checksummed part of ANY file up to that length changes the checksum.
RECURSIVE ZeroRun(_, _)
ZeroRun(c, n) == IF n = 0 THEN c ELSE ZeroRun(TableByte(T0, c, 0), n - 1)
Syndrome(e, dist) == ZeroRun(TableByte(T0, WZero, e), dist)
\* advance all 255 syndromes together, 64 distances per step
SynInit == [e \in 1..255 |-> TableByte(T0, WZero, e)]
SynAdvance(S, n) == [e \in 1..255 |-> ZeroRun(S[e], n)]
SynNonZero(S) == \A e \in 1..255 : S[e] # WZero
\* the syndromes are checked at every distance inside the block
RECURSIVE BlockOK(_, _)
BlockOK(S, n) == IF n = 0 THEN TRUE ELSE SynNonZero(S) /\ BlockOK([e \in 1..255 |-> TableByte(T0, S[e], 0)], n - 1)
\* Mask is injective (a bijection on 32-bit values): rotate and add a constant;
\* checked on the explored syndromes: distinct inputs give distinct outputs
MaskInjectiveOn(S) == \A e, f \in 1..255 : S[e] # S[f] => MaskW(S[e]) # MaskW(S[f])

Init == mode \in Modes /\ pc = "init" /\ x = <<>> /\ TS = MakeTable16
Pick ==
    /\ pc = "init"
    /\ CASE mode = "crc" -> x' \in CrcCases /\ pc' = "ready"
         [] mode = "nodes" -> x' \in { <<n, v, la>> : n \in { m \in SmallNodes : NodeWellFormed(m) }, v \in Versions, la \in {1, Start - 1} } /\ pc' = "ready"
         [] mode = "wide" -> x' \in { <<n, v>> : n \in WideNodes, v \in {1, 2, 3} } /\ pc' = "ready"
         [] mode = "files" -> x' \in { <<c, v, p>> : c \in Contents, v \in {1, 2, 3}, p \in {"final", "push"} } /\ pc' = "ready"
         [] mode = "syndrome" -> x' = <<0, SynInit>> /\ pc' = "syn"
    /\ UNCHANGED <<mode, TS>>
SynStep ==
    /\ pc = "syn" /\ x[1] < MaxDist
    /\ x' = <<x[1] + 64, SynAdvance(x[2], 64)>>
    /\ UNCHANGED <<mode, pc, TS>>
Next == Pick \/ SynStep
Spec == Init /\ [][Next]_vars

CrcOK == /\ (pc = "init" /\ mode = "crc" => KnownVector)
         /\ ((pc = "ready" /\ mode = "crc") => CrcAgree(x[1], x[2], x[3]))
NodesOK == (pc = "ready" /\ mode = "nodes") => RoundTrip(x[1], x[2], x[3])
WideOK == (pc = "ready" /\ mode = "wide") => RoundTrip(x[1], x[2], 1)
FilesOK == (pc = "ready" /\ mode = "files") => FileOK(x[1], x[2], x[3])
SyndromeOK == pc = "syn" => BlockOK(x[2], 64) /\ MaskInjectiveOn(x[2])
=============================================================================
