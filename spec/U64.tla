-------------------------------- MODULE U64 --------------------------------
(* Unsigned 64-bit values as canonical little-endian byte sequences without *)
(* trailing zero bytes (0 = <<>>, 300 = <<44, 1>>).  TLC integers are       *)
(* 32-bit signed, the crate's outputs are u64; the same operators serve     *)
(* model checking (small values) and trace validation (values up to 2^64-1  *)
(* carried as byte arrays in JSON).                                         *)
EXTENDS Integers, Sequences

RECURSIVE UTrim(_)
UTrim(s) == IF s = <<>> THEN s
            ELSE IF s[Len(s)] = 0 THEN UTrim([i \in 1..(Len(s) - 1) |-> s[i]])
            ELSE s

IsU64(v) == /\ Len(v) <= 8
            /\ \A i \in 1..Len(v) : v[i] \in 0..255
            /\ (v # <<>> => v[Len(v)] # 0)

UZero == <<>>
UIsZero(v) == v = <<>>

UByte(v, i) == IF i <= Len(v) THEN v[i] ELSE 0

RECURSIVE UAddC(_, _, _, _)
UAddC(a, b, i, c) ==
    IF i > Len(a) /\ i > Len(b)
    THEN (IF c = 0 THEN <<>> ELSE <<c>>)
    ELSE LET x == UByte(a, i) + UByte(b, i) + c
         IN  <<x % 256>> \o UAddC(a, b, i + 1, x \div 256)

\* addition (callers ensure no overflow past 8 bytes; UAddOverflows says so)
UAdd(a, b) == UTrim(UAddC(a, b, 1, 0))
UAddOverflows(a, b) == Len(UAdd(a, b)) > 8

\* strict order: longer canonical sequence is larger; equal length: compare
\* from the most significant byte
RECURSIVE ULtFrom(_, _, _)
ULtFrom(a, b, i) ==
    IF i = 0 THEN FALSE
    ELSE IF a[i] < b[i] THEN TRUE
    ELSE IF a[i] > b[i] THEN FALSE
    ELSE ULtFrom(a, b, i - 1)
ULt(a, b) == IF Len(a) # Len(b) THEN Len(a) < Len(b) ELSE ULtFrom(a, b, Len(a))
ULeq(a, b) == IF a = b THEN TRUE ELSE ULt(a, b)
UMin(a, b) == IF ULeq(a, b) THEN a ELSE b
UMax(a, b) == IF ULeq(a, b) THEN b ELSE a

\* subtraction a - b, defined for b <= a
RECURSIVE USubC(_, _, _, _)
USubC(a, b, i, br) ==
    IF i > Len(a) THEN <<>>
    ELSE LET x == a[i] - UByte(b, i) - br
         IN  IF x >= 0 THEN <<x>> \o USubC(a, b, i + 1, 0)
             ELSE <<x + 256>> \o USubC(a, b, i + 1, 1)
USub(a, b) == UTrim(USubC(a, b, 1, 0))

RECURSIVE UFromNat(_)
UFromNat(n) == IF n = 0 THEN <<>> ELSE <<n % 256>> \o UFromNat(n \div 256)

\* only for values known to fit TLC integers (< 2^31)
RECURSIVE UToNatFrom(_, _)
UToNatFrom(v, i) == IF i > Len(v) THEN 0 ELSE v[i] + 256 * UToNatFrom(v, i + 1)
UToNat(v) == UToNatFrom(v, 1)
UFitsNat(v) == Len(v) <= 3 \/ (Len(v) = 4 /\ v[4] < 128)

\* the number of bytes the format uses to store v (bytes::pack_size)
UPackSize(v) == IF v = <<>> THEN 1 ELSE Len(v)

\* fixed-width little-endian encoding in n bytes (n >= Len(v))
UPackIn(v, n) == [i \in 1..n |-> UByte(v, i)]

RECURSIVE USumSeq(_, _)
USumSeq(s, i) == IF i > Len(s) THEN <<>> ELSE UAdd(s[i], USumSeq(s, i + 1))
=============================================================================
