SPECIFICATION Spec
CONSTANTS
  Sym <- SymDef
  Universe <- UniDef
  BoundKeys <- BKSmall
  Automata <- AutDef
  MaxKeys = 3
  Placement = "push"
INVARIANTS Correct LockStep
CHECK_DEADLOCK FALSE
