SPECIFICATION Spec
CONSTANTS
  MaxIntr = 2
  Faulty = TRUE
  AsFound = FALSE
INVARIANTS Counted SinkExact NoSilentSuccess PrefixAlways
CHECK_DEADLOCK FALSE
