------------------------------ MODULE Trace_Mem ------------------------------
(* Code -> spec for C13 / C14: heap measurements of the real crate (a       *)
(* counting global allocator in the harness) judged against Mem.tla.        *)
(*   Mem   scenario, N (keys), k (streams), live / peak heap attributable   *)
(*         to the object under test, allocation count, and the parameters   *)
(*         the bound may depend on                                          *)
(* Absolute bounds per event; and relational non-growth: a run with more    *)
(* keys of the same scenario may not need more than GrowthSlack more.       *)
EXTENDS Mem, Sequences, TLC, Json, IOUtils

Rec == ndJsonDeserialize(IOEnv.TRACE)
VARIABLES l, seen      \* seen: scenario |-> [n, peak] of the smallest run seen
vars == <<l, seen>>
E == Rec[l]

Init == l = 1 /\ seen = [x \in {} |-> 0]

Bound(e) ==
    CASE e.what = "build" -> BuilderBound(e.cells, e.maxFan, e.maxKeyLen)
      [] e.what \in {"stream", "range", "search"} -> StreamBound(e.maxKeyLen)
      [] e.what = "op" -> OpBound(e.k, e.maxKeyLen)
      [] e.what = "noalloc" -> 0

MemEv ==
    /\ l <= Len(Rec) /\ E.ev = "Mem"
    /\ E.peak <= Bound(E)
    /\ (E.what = "noalloc" => E.allocs = 0)
    \* relational: no growth with the number of keys
    /\ IF E.scenario \in DOMAIN seen
       \* (for builders only with a cache that is certainly full at the smaller run: a large
       \* cache is still filling up, which the absolute bound already accounts for)
       THEN /\ (E.n >= seen[E.scenario].n /\ (E.what = "build" => E.cells <= 1024)
                 => E.peak <= seen[E.scenario].peak + GrowthSlack(E.what))
            /\ UNCHANGED seen
       ELSE seen' = [x \in (DOMAIN seen) \cup {E.scenario} |-> IF x = E.scenario THEN [n |-> E.n, peak |-> E.peak] ELSE seen[x]]
    /\ l' = l + 1

Next == MemEv
Spec == Init /\ [][Next]_vars
Accepted ==
    LET d == TLCGet("stats").diameter IN
    IF d - 1 = Len(Rec) THEN PrintT(<<"TRACE-ACCEPTED", Len(Rec)>>)
    ELSE PrintT(<<"TRACE-REJECTED", d>>) /\ FALSE
=============================================================================
