-------------------------------- MODULE Lev --------------------------------
(* C17: the Levenshtein automaton of src/automaton/levenshtein.rs.          *)
(*  ED            edit distance over abstract characters (declarative)      *)
(*  LStart/LAccept/LMatch/LCan   the DP-row automaton (DynamicLevenshtein)  *)
(*  Step          DfaBuilder::build_with_limit as coded: the work stack,    *)
(*                the state cache keyed by DP row, one fresh intermediate   *)
(*                state per non-final UTF-8 range, mismatch transitions     *)
(*                over the nine Utf8Sequences(0, 10FFFF) with fill-if-empty,*)
(*                query-character transitions with overwrite, the limit     *)
(*                test after each popped row.                               *)
(* Fixed = FALSE is the pre-repair behaviour (defect D2): the intermediate   *)
(* state created for a query character REPLACES the lead-byte transition of  *)
(* the mismatch sequences, so characters sharing a UTF-8 prefix with a query *)
(* character fall into the dead state.  Fixed = TRUE initialises the new     *)
(* intermediate state with the transitions of the state it replaces.         *)
EXTENDS Naturals, Sequences, FiniteSets, TLC, SequencesExt
CONSTANTS Enc,        \* Enc[c] = UTF-8 bytes of abstract character c \in 1..Len(Enc)
          MaxQ, MaxK, MaxD, Fixed, Limit
Chars == 1..Len(Enc)
Min2(a,b) == IF a <= b THEN a ELSE b
Strs(n) == UNION { [1..m -> Chars] : m \in 0..n }
\* ---------- declarative edit distance
RECURSIVE ED(_,_)
ED(a,b) == IF a = <<>> THEN Len(b) ELSE IF b = <<>> THEN Len(a) ELSE
   Min2(Min2(ED(Tail(a),b) + 1, ED(a,Tail(b)) + 1), ED(Tail(a),Tail(b)) + (IF a[1] = b[1] THEN 0 ELSE 1))
\* ---------- DP-row automaton (DynamicLevenshtein); row is a tuple of Len(q)+1 entries
LStart(q) == [i \in 1..(Len(q)+1) |-> i - 1]
RECURSIVE LAcc(_,_,_,_,_)
LAcc(q, d, row, chr, nxt) == LET i == Len(nxt) IN   \* nxt holds entries 0..i-1 ; computing entry i (1-based i+1)
   IF i > Len(q) THEN nxt ELSE
   LET cost == IF q[i] = chr THEN 0 ELSE 1
       v == Min2(Min2(nxt[i] + 1, row[i+1] + 1), row[i] + cost) IN
   LAcc(q, d, row, chr, Append(nxt, Min2(v, d + 1)))
LAccept(q, d, row, chr) == LAcc(q, d, row, chr, << row[1] + 1 >>)      \* chr = 0 : no query char (mismatch)
LMatch(d, row) == row[Len(row)] <= d
LCan(d, row) == \E i \in 1..Len(row) : row[i] <= d
RECURSIVE RunRow(_,_,_,_)
RunRow(q, d, row, k) == IF k = <<>> THEN row ELSE RunRow(q, d, LAccept(q, d, row, k[1]), Tail(k))
\* ---------- byte-level DFA builder (DfaBuilder)
Utf8All == << <<<<0,127>>>>, <<<<194,223>>,<<128,191>>>>, <<<<224,224>>,<<160,191>>,<<128,191>>>>,
              <<<<225,236>>,<<128,191>>,<<128,191>>>>, <<<<237,237>>,<<128,159>>,<<128,191>>>>,
              <<<<238,239>>,<<128,191>>,<<128,191>>>>, <<<<240,240>>,<<144,191>>,<<128,191>>,<<128,191>>>>,
              <<<<241,243>>,<<128,191>>,<<128,191>>,<<128,191>>>>, <<<<244,244>>,<<128,143>>,<<128,191>>,<<128,191>>>> >>
CharSeq(c) == << [i \in 1..Len(Enc[c]) |-> <<Enc[c][i], Enc[c][i]>>] >>
NoNext == [b \in 0..255 |-> 0]
NewState(dfa, m) == Append(dfa, [next |-> NoNext, match |-> m])
AddRange(dfa, ow, from, to, rg) ==
   [dfa EXCEPT ![from].next = [b \in 0..255 |-> IF b >= rg[1] /\ b <= rg[2] /\ (ow \/ @[b] = 0) THEN to ELSE @[b]]]
\* one utf8 sequence: intermediate states for all but the last range
RECURSIVE AddSeq(_,_,_,_,_,_)
AddSeq(dfa, ow, fsi, to, seq, j) ==
   IF j = Len(seq) THEN AddRange(dfa, ow, fsi, to, seq[j])
   ELSE LET d1 == NewState(dfa, FALSE) tsi == Len(d1)
            old == dfa[fsi].next[seq[j][1]]
            d2 == IF Fixed /\ ow /\ old # 0 THEN [d1 EXCEPT ![tsi].next = d1[old].next] ELSE d1
            d3 == AddRange(d2, ow, fsi, tsi, seq[j]) IN
        AddSeq(d3, ow, tsi, to, seq, j+1)
RECURSIVE AddSeqs(_,_,_,_,_,_)
AddSeqs(dfa, ow, from, to, seqs, i) == IF i > Len(seqs) THEN dfa ELSE AddSeqs(AddSeq(dfa, ow, from, to, seqs[i], 1), ow, from, to, seqs, i+1)
\* cache : function row -> index, kept as a set of pairs
Lookup(cache, row) == IF \E p \in cache : p[1] = row THEN (CHOOSE p \in cache : p[1] = row)[2] ELSE 0
\* returns [dfa, cache, si] ; si = 0 when the row cannot match
Cached(d, dfa, cache, row) ==
   IF ~LCan(d, row) THEN [dfa |-> dfa, cache |-> cache, si |-> 0]
   ELSE LET f == Lookup(cache, row) IN
        IF f # 0 THEN [dfa |-> dfa, cache |-> cache, si |-> f]
        ELSE LET d1 == NewState(dfa, LMatch(d, row)) IN [dfa |-> d1, cache |-> cache \cup {<<row, Len(d1)>>}, si |-> Len(d1)]
VARIABLES q, d, dfa, cache, stack, seen, status
vars == <<q, d, dfa, cache, stack, seen, status>>
Init == /\ q \in Strs(MaxQ) /\ d \in 0..MaxD
        /\ dfa = <<>> /\ cache = {} /\ seen = {} /\ status = "run"
        /\ stack = << LStart(q) >>
\* the loop over query characters
RECURSIVE QLoop(_,_,_,_,_,_,_)
QLoop(st, row, si, i, qq, dd, _x) ==      \* st = [dfa, cache, stack, seen]
   IF i > Len(qq) THEN st
   ELSE IF row[i] > dd THEN QLoop(st, row, si, i+1, qq, dd, 0)
   ELSE LET nrow == LAccept(qq, dd, row, qq[i])
            c == Cached(dd, st.dfa, st.cache, nrow) IN
        IF c.si = 0 THEN QLoop([st EXCEPT !.dfa = c.dfa, !.cache = c.cache], row, si, i+1, qq, dd, 0)
        ELSE LET d2 == AddSeqs(c.dfa, TRUE, si, c.si, CharSeq(qq[i]), 1)
                 push == c.si \notin st.seen IN
             QLoop([dfa |-> d2, cache |-> c.cache,
                    stack |-> IF push THEN Append(st.stack, nrow) ELSE st.stack,
                    seen |-> st.seen \cup {c.si}], row, si, i+1, qq, dd, 0)
Step ==
  /\ status = "run" /\ stack # <<>>
  /\ LET row == stack[Len(stack)]
         stk0 == SubSeq(stack, 1, Len(stack)-1)
         c0 == Cached(d, dfa, cache, row)          \* unwrap: must exist
         mrow == LAccept(q, d, row, 0)
         cm == Cached(d, c0.dfa, c0.cache, mrow)
         st1 == IF cm.si = 0 THEN [dfa |-> cm.dfa, cache |-> cm.cache, stack |-> stk0, seen |-> seen]
                ELSE [dfa |-> AddSeqs(cm.dfa, FALSE, c0.si, cm.si, Utf8All, 1), cache |-> cm.cache,
                      stack |-> IF cm.si \notin seen THEN Append(stk0, mrow) ELSE stk0,
                      seen |-> seen \cup {cm.si}]
         st2 == QLoop(st1, row, c0.si, 1, q, d, 0) IN
     /\ c0.si # 0
     /\ dfa' = st2.dfa /\ cache' = st2.cache /\ stack' = st2.stack /\ seen' = st2.seen
     /\ status' = IF Len(st2.dfa) > Limit THEN "toomany" ELSE IF st2.stack = <<>> THEN "ok" ELSE "run"
  /\ UNCHANGED <<q, d>>
Next == Step
Spec == Init /\ [][Next]_vars
\* ---------- acceptance
Utf8(k) == LET RECURSIVE F(_) F(s) == IF s = <<>> THEN <<>> ELSE Enc[s[1]] \o F(Tail(s)) IN F(k)
RECURSIVE RunDfa(_,_,_)
RunDfa(s, bytes, i) == IF s = 0 \/ i > Len(bytes) THEN s ELSE RunDfa(dfa[s].next[bytes[i]], bytes, i+1)
DfaAccepts(k) == LET s == RunDfa(1, Utf8(k), 1) IN s # 0 /\ dfa[s].match
RowOK == \A k \in Strs(MaxK) : LMatch(d, RunRow(q, d, LStart(q), k)) = (ED(q, k) <= d)
DfaOK == status = "ok" => \A k \in Strs(MaxK) : DfaAccepts(k) = (ED(q, k) <= d)
=============================================================================
