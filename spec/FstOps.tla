------------------------------- MODULE FstOps -------------------------------
(* Layer B: the set operations of src/raw/ops.rs - StreamHeap (one slot per *)
(* non-exhausted stream, min-ordered by (key, value); Pop returns ANY       *)
(* minimal slot: BinaryHeap does not specify ties), the held-back current   *)
(* slot refilled on the next call, Union / Intersection / SymmetricDifference*)
(* as coded (refill first, pop, drain equals, count, refill), Difference     *)
(* with the swap_remove(0) re-indexing of the remaining streams.            *)
EXTENDS Naturals, Sequences, FiniteSets, TLC, SequencesExt
\* raw/ops.rs : StreamHeap + Union / Intersection / SymmetricDifference / Difference
CONSTANTS Universe, K, OpKinds, ValModes
VARIABLES OpKind, ValMode
RECURSIVE Lex(_,_)
Lex(a,b) == IF a = <<>> THEN b # <<>> ELSE IF b = <<>> THEN FALSE ELSE IF a[1] < b[1] THEN TRUE ELSE IF a[1] > b[1] THEN FALSE ELSE Lex(Tail(a),Tail(b))
Leq(a,b) == a = b \/ Lex(a,b)
ValOf(i, k) == IF ValMode = "equal" THEN 5 ELSE 10 * i + Len(k)
StreamOf(S, i) == LET ks == SetToSortSeq(S, Lex) IN [n \in 1..Len(ks) |-> <<ks[n], ValOf(i, ks[n])>>]
VARIABLES sets,     \* the k input key sets (chosen in Init)
          rdr,      \* rdr[i] = remaining items of stream i (heap-side numbering)
          heap,     \* set of slots [idx, key, val]
          cur,      \* held-back slot: <<>> or <<slot>>
          first,    \* difference only: remaining items of the first stream
          out, pc
vars == <<OpKind, ValMode, sets, rdr, heap, cur, first, out, pc>>
\* heap order: min by (key, val); ties arbitrary
Less(a,b) == Lex(a.key,b.key) \/ (a.key = b.key /\ a.val < b.val)
Minimal(h) == { s \in h : \A t \in h : ~Less(t,s) }
\* refill(slot): advance reader slot.idx, push if it yields
Refill(r, h, idx) == IF r[idx] = <<>> THEN [rdr |-> r, heap |-> h]
                     ELSE [rdr |-> [r EXCEPT ![idx] = Tail(@)], heap |-> h \cup {[idx |-> idx, key |-> r[idx][1][1], val |-> r[idx][1][2]]}]
RECURSIVE InitHeap(_,_,_)
InitHeap(r, h, i) == IF i > Len(r) THEN [rdr |-> r, heap |-> h] ELSE LET x == Refill(r, h, i) IN InitHeap(x.rdr, x.heap, i+1)
\* drain all slots equal to key, refilling each; nondeterministic order is irrelevant for the resulting state, so drain as a set
RECURSIVE Drain(_,_,_,_)
Drain(r, h, key, outs) == LET eq == { s \in h : s.key = key } IN
   IF eq = {} THEN [rdr |-> r, heap |-> h, outs |-> outs]
   ELSE LET s == CHOOSE s \in Minimal(eq) : TRUE x == Refill(r, h \ {s}, s.idx) IN Drain(x.rdr, x.heap, key, outs \cup {<<s.idx, s.val>>})
Init == /\ OpKind \in OpKinds /\ ValMode \in ValModes
        /\ sets \in [1..K -> SUBSET Universe] /\ out = <<>> /\ pc = "run" /\ cur = <<>>
        /\ IF OpKind = "difference"
           THEN \* swap_remove(0): last stream takes position 0 of the remaining vector
                LET rest == IF K = 1 THEN <<>> ELSE [j \in 1..(K-1) |-> IF j = 1 THEN StreamOf(sets[K], K) ELSE StreamOf(sets[j], j)]
                    x == InitHeap(rest, {}, 1) IN
                first = StreamOf(sets[1], 1) /\ rdr = x.rdr /\ heap = x.heap
           ELSE LET x == InitHeap([i \in 1..K |-> StreamOf(sets[i], i)], {}, 1) IN first = <<>> /\ rdr = x.rdr /\ heap = x.heap
\* one call of next() for union / intersection / symmetric difference; pop is any minimal slot
RECURSIVE HeapNext(_,_,_)
HeapNext(r, h, s0) ==   \* s0 : the popped slot (chosen by the action)
   LET d == Drain(r, h \ {s0}, s0.key, {<<s0.idx, s0.val>>})
       popped == Cardinality(d.outs)
       emit == CASE OpKind = "union" -> TRUE [] OpKind = "intersection" -> popped = K [] OpKind = "symmetric_difference" -> popped % 2 = 1 IN
   [rdr |-> d.rdr, heap |-> d.heap, slot |-> s0, outs |-> d.outs, emit |-> emit]
NextHeapOp ==
  /\ pc = "run" /\ OpKind # "difference"
  /\ LET x0 == IF cur = <<>> THEN [rdr |-> rdr, heap |-> heap] ELSE Refill(rdr, heap, cur[1].idx) IN
     IF x0.heap = {} THEN pc' = "end" /\ rdr' = x0.rdr /\ heap' = x0.heap /\ cur' = <<>> /\ UNCHANGED out
     ELSE \E s0 \in Minimal(x0.heap) :
            LET y == HeapNext(x0.rdr, x0.heap, s0) IN
            IF y.emit THEN /\ out' = Append(out, <<s0.key, y.outs>>) /\ cur' = <<s0>> /\ rdr' = y.rdr /\ heap' = y.heap /\ UNCHANGED pc
            ELSE \* not emitted: refill(slot) immediately and loop (modelled as another step without output)
                 LET z == Refill(y.rdr, y.heap, s0.idx) IN rdr' = z.rdr /\ heap' = z.heap /\ cur' = <<>> /\ UNCHANGED <<out, pc>>
  /\ UNCHANGED <<sets, first>>
\* difference: advance the first stream, drain others <= key
RECURSIVE DrainLe(_,_,_,_)
DrainLe(r, h, key, uniq) == LET le == { s \in h : Leq(s.key, key) } IN
   IF le = {} THEN [rdr |-> r, heap |-> h, uniq |-> uniq]
   ELSE LET s == CHOOSE s \in Minimal(le) : TRUE x == Refill(r, h \ {s}, s.idx) IN DrainLe(x.rdr, x.heap, key, uniq /\ s.key # key)
NextDiff ==
  /\ pc = "run" /\ OpKind = "difference"
  /\ IF first = <<>> THEN pc' = "end" /\ UNCHANGED <<rdr, heap, first, out>>
     ELSE LET it == first[1] d == DrainLe(rdr, heap, it[1], TRUE) IN
          /\ first' = Tail(first) /\ rdr' = d.rdr /\ heap' = d.heap /\ UNCHANGED pc
          /\ out' = IF d.uniq THEN Append(out, <<it[1], {<<0, it[2]>>}>>) ELSE out
  /\ UNCHANGED <<sets, cur>>
Next == UNCHANGED <<OpKind, ValMode>> /\ (NextHeapOp \/ NextDiff)
Spec == Init /\ [][Next]_vars
\* ---- set-theoretic definitions (indices as the API reports them: 0-based, stream order of insertion)
Holders(k) == { i \in 1..K : k \in sets[i] }
WantKeys == CASE OpKind = "union" -> { k \in Universe : Holders(k) # {} }
              [] OpKind = "intersection" -> { k \in Universe : Holders(k) = 1..K }
              [] OpKind = "symmetric_difference" -> { k \in Universe : Cardinality(Holders(k)) % 2 = 1 }
              [] OpKind = "difference" -> { k \in sets[1] : Holders(k) = {1} }
WantOuts(k) == IF OpKind = "difference" THEN {<<0, ValOf(1,k)>>} ELSE { <<i, ValOf(i,k)>> : i \in Holders(k) }
Correct == pc = "end" => LET w == SetToSortSeq(WantKeys, Lex) IN
             /\ Len(out) = Len(w)
             /\ \A n \in 1..Len(out) : out[n][1] = w[n] /\ out[n][2] = WantOuts(w[n])
\* C14: the heap never holds more than one slot per stream
HeapBound == Cardinality(heap) + Len(cur) <= K
=============================================================================
