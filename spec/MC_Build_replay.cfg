SPECIFICATION Spec
CONSTANTS
  Keys <- KeysDef
  Vals <- ValsDef
  MaxCalls = 3
  Cells = 2
  SetMode = FALSE
INVARIANTS Refines AccSorted NoDupUnlessEvicted TrieBound Backward Retained MonotoneOutputs Minimal Emit

CHECK_DEADLOCK FALSE
