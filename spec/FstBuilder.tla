----------------------------- MODULE FstBuilder -----------------------------
(* Layer B: incremental construction of the minimal acyclic transducer as   *)
(* src/raw/build.rs performs it, one action per step of the code:           *)
(*   CallInsert   check_last_key, then find_common_prefix_and_set_output    *)
(*                (outputs pushed toward the root: prefix = min, cat = +,   *)
(*                sub = -) or the empty-key case                            *)
(*   Reject       a call that violates the ordering contract: no mutation   *)
(*   FreezeOne    one iteration of compile_from: pop a frame, attach the    *)
(*                child address, compile the node                           *)
(*   EndFreeze    top_last_freeze + add_suffix                              *)
(*   CallFinish / EndFinish   freeze everything, compile the root           *)
(* compile() is EmptyFinal (address 0) | Hit(addr) - only for an identical  *)
(* node whose address the cache remembers - | Miss: emit at the current     *)
(* count and remember it, evicting ANY one remembered address (forced when  *)
(* the cache is full).  The cache is policy-free: every hash function,      *)
(* geometry and replacement policy of registry.rs is one resolution of this *)
(* nondeterminism, so the invariants hold for all of them.                  *)
(* Values are naturals here (layer A uses U64); Cells = 99 is "unbounded".  *)
EXTENDS Integers, Sequences, FiniteSets, TLC, Bytes

CONSTANTS Keys,      \* candidate keys of calls
          Vals,      \* candidate values
          MaxCalls,  \* length of call histories
          Cells,     \* capacity of the node cache (0: the rejecting registry)
          SetMode    \* TRUE: add() calls (set semantics), FALSE: insert()

VARIABLES stack,     \* unfinished nodes: [final, fout, trans, last]
          emitted,   \* sequence of emitted nodes; the node at index i has address i+1
          cache,     \* set of remembered addresses
          evict,     \* number of evictions so far
          last,      \* Option: last accepted key
          acc,       \* accepted <<key, value>> pairs (history variable)
          hist,      \* call history <<key, value, result>> (history variable)
          pc, tgt, pend, sfx, sout
vars == <<stack, emitted, cache, evict, last, acc, hist, pc, tgt, pend, sfx, sout>>

NONE_ADDR == 1
Min2(a, b) == IF a <= b THEN a ELSE b
EmptyFrame(f) == [final |-> f, fout |-> 0, trans |-> <<>>, last |-> <<>>]

Init == /\ stack = <<EmptyFrame(FALSE)>> /\ emitted = <<>> /\ cache = {} /\ evict = 0
        /\ last = None /\ acc = <<>> /\ hist = <<>>
        /\ pc = "idle" /\ tgt = 0 /\ pend = NONE_ADDR /\ sfx = <<>> /\ sout = 0

\* BuilderNodeUnfinished::add_output_prefix
AddPre(fr, p) ==
    [fr EXCEPT !.fout = IF fr.final THEN p + fr.fout ELSE fr.fout,
               !.trans = [j \in 1..Len(fr.trans) |-> [fr.trans[j] EXCEPT !.out = p + @]],
               !.last = IF fr.last = <<>> THEN <<>> ELSE <<[fr.last[1] EXCEPT !.out = p + @]>>]

\* find_common_prefix_and_set_output: <<prefix length, remaining output, stack>>
RECURSIVE CP(_, _, _, _)
CP(st, bs, i, out) ==
    IF i < Len(bs) /\ i + 1 <= Len(st) /\ st[i + 1].last # <<>> /\ st[i + 1].last[1].inp = bs[i + 1]
    THEN LET t == st[i + 1].last[1]
             cp == Min2(t.out, out)
             ap == t.out - cp
             st1 == [st EXCEPT ![i + 1].last = <<[t EXCEPT !.out = cp]>>]
             st2 == IF ap > 0 THEN [st1 EXCEPT ![i + 2] = AddPre(st1[i + 2], ap)] ELSE st1
         IN  CP(st2, bs, i + 1, out - cp)
    ELSE <<i, out, st>>

\* find_common_prefix (the add() path: no outputs)
RECURSIVE CP0(_, _, _)
CP0(st, bs, i) ==
    IF i < Len(bs) /\ i + 1 <= Len(st) /\ st[i + 1].last # <<>> /\ st[i + 1].last[1].inp = bs[i + 1]
    THEN CP0(st, bs, i + 1) ELSE i

Attach(fr, addr) ==
    IF fr.last = <<>> THEN fr
    ELSE [fr EXCEPT !.trans = Append(fr.trans, [inp |-> fr.last[1].inp, out |-> fr.last[1].out, addr |-> addr]),
                    !.last = <<>>]
NodeOf(fr) == [final |-> fr.final, fout |-> fr.fout, trans |-> fr.trans]

\* the ordering contract as check_last_key codes it
Verdict(k) ==
    IF last = None THEN "ok"
    ELSE IF ~SetMode /\ k = last[1] THEN "dup"
    ELSE IF Lex(k, last[1]) THEN "ooo"
    ELSE "ok"

Reject(k, v) ==
    /\ pc = "idle" /\ Len(hist) < MaxCalls /\ Verdict(k) # "ok"
    /\ hist' = Append(hist, <<k, v, Verdict(k)>>)
    /\ UNCHANGED <<stack, emitted, cache, evict, last, acc, pc, tgt, pend, sfx, sout>>

CallInsert(k, v) ==
    /\ pc = "idle" /\ Len(hist) < MaxCalls /\ Verdict(k) = "ok"
    /\ hist' = Append(hist, <<k, v, "ok">>)
    /\ last' = Some(k)
    /\ IF k = <<>>
       THEN \* must be the first key: set_root_output
            /\ stack' = [stack EXCEPT ![1].final = TRUE, ![1].fout = v]
            /\ acc' = IF SetMode /\ last = Some(k) THEN acc ELSE Append(acc, <<k, v>>)
            /\ UNCHANGED <<emitted, cache, evict, pc, tgt, pend, sfx, sout>>
       ELSE IF SetMode
            THEN LET n == CP0(stack, k, 0) IN
                 IF n = Len(k)
                 THEN \* a repeated key: accepted and ignored
                      UNCHANGED <<stack, emitted, cache, evict, acc, pc, tgt, pend, sfx, sout>>
                 ELSE /\ acc' = Append(acc, <<k, v>>)
                      /\ tgt' = n /\ sout' = 0 /\ sfx' = DropN(k, n) /\ pend' = NONE_ADDR /\ pc' = "freeze"
                      /\ UNCHANGED <<stack, emitted, cache, evict>>
            ELSE LET r == CP(stack, k, 0, v) IN
                 /\ acc' = Append(acc, <<k, v>>)
                 /\ stack' = r[3] /\ tgt' = r[1] /\ sout' = r[2] /\ sfx' = DropN(k, r[1])
                 /\ pend' = NONE_ADDR /\ pc' = "freeze"
                 /\ UNCHANGED <<emitted, cache, evict>>

IsEmptyFinalNode(n) == n.final /\ n.trans = <<>> /\ n.fout = 0
Hits(n) == { a \in cache : emitted[a - 1] = n }

\* compile(node): the relation between the state before and after
Compile(n) ==
    IF IsEmptyFinalNode(n)
    THEN pend' = 0 /\ UNCHANGED <<emitted, cache, evict>>
    ELSE \/ \E a \in Hits(n) : pend' = a /\ UNCHANGED <<emitted, cache, evict>>
         \/ /\ Hits(n) = {}
            /\ emitted' = Append(emitted, n)
            /\ pend' = Len(emitted) + 2
            /\ IF Cells = 0 THEN UNCHANGED <<cache, evict>>
               ELSE \/ Cardinality(cache) < Cells /\ cache' = cache \cup {Len(emitted) + 2} /\ UNCHANGED evict
                    \/ \E x \in cache : cache' = (cache \ {x}) \cup {Len(emitted) + 2} /\ evict' = evict + 1

\* (the node compiler is a parameter so that a trace specification can resolve
\* its nondeterminism from a recorded compile event: Trace_Step.tla)
FreezeOneW(Comp(_)) ==
    /\ pc \in {"freeze", "finish"} /\ tgt + 1 < Len(stack)
    /\ LET top == stack[Len(stack)]
           fr == IF pend = NONE_ADDR THEN top ELSE Attach(top, pend)
       IN  Comp(NodeOf(fr))
    /\ stack' = SubSeq(stack, 1, Len(stack) - 1)
    /\ UNCHANGED <<last, acc, hist, pc, tgt, sfx, sout>>
FreezeOne == FreezeOneW(Compile)

RECURSIVE PushSfx(_, _)
PushSfx(st, bs) ==
    IF bs = <<>> THEN Append(st, EmptyFrame(TRUE))
    ELSE PushSfx(Append(st, [final |-> FALSE, fout |-> 0, trans |-> <<>>, last |-> <<[inp |-> bs[1], out |-> 0]>>]), Tail(bs))

EndFreeze ==
    /\ pc = "freeze" /\ tgt + 1 >= Len(stack)
    /\ LET n == Len(stack)
           st1 == [stack EXCEPT ![n] = IF pend = NONE_ADDR THEN @ ELSE Attach(@, pend)]
           st2 == IF sfx = <<>> THEN st1
                  ELSE PushSfx([st1 EXCEPT ![n].last = <<[inp |-> sfx[1], out |-> sout]>>], Tail(sfx))
       IN  stack' = st2
    /\ pc' = "idle" /\ pend' = NONE_ADDR /\ sfx' = <<>> /\ sout' = 0 /\ tgt' = 0
    /\ UNCHANGED <<emitted, cache, evict, last, acc, hist>>

CallFinish ==
    /\ pc = "idle" /\ pc' = "finish" /\ tgt' = 0 /\ pend' = NONE_ADDR
    /\ UNCHANGED <<stack, emitted, cache, evict, last, acc, hist, sfx, sout>>

EndFinishW(Comp(_)) ==
    /\ pc = "finish" /\ Len(stack) = 1
    /\ LET fr == IF pend = NONE_ADDR THEN stack[1] ELSE Attach(stack[1], pend)
       IN  Comp(NodeOf(fr))
    /\ pc' = "done" /\ stack' = <<>>
    /\ UNCHANGED <<last, acc, hist, tgt, sfx, sout>>
EndFinish == EndFinishW(Compile)

Next == \/ \E k \in Keys, v \in Vals : CallInsert(k, v) \/ Reject(k, v)
        \/ FreezeOne \/ EndFreeze \/ CallFinish \/ EndFinish
Spec == Init /\ [][Next]_vars

---------------------------------------------------------------------------
(* interpretation of the state as a map *)
NodeAt(a) == IF a = 0 THEN [final |-> TRUE, fout |-> 0, trans |-> <<>>] ELSE emitted[a - 1]
RECURSIVE LangN(_, _, _)
LangN(a, key, out) ==
    LET n == NodeAt(a) IN
    (IF n.final THEN {<<key, out + n.fout>>} ELSE {}) \cup
    UNION { LangN(n.trans[i].addr, Append(key, n.trans[i].inp), out + n.trans[i].out) : i \in 1..Len(n.trans) }
RECURSIVE LangS(_, _, _)
LangS(j, key, out) ==
    LET fr == stack[j] IN
    (IF fr.final THEN {<<key, out + fr.fout>>} ELSE {}) \cup
    UNION { LangN(fr.trans[i].addr, Append(key, fr.trans[i].inp), out + fr.trans[i].out) : i \in 1..Len(fr.trans) } \cup
    (IF fr.last = <<>> THEN {} ELSE LangS(j + 1, Append(key, fr.last[1].inp), out + fr.last[1].out))
AccSet == { acc[i] : i \in 1..Len(acc) }

\* C01 / C06: the state always denotes exactly the accepted pairs
Refines == /\ (pc = "idle" => LangS(1, <<>>, 0) = AccSet)
           /\ (pc = "done" => LangN(pend, <<>>, 0) = AccSet)
\* C06: accepted keys strictly increase; acc is what the abstract contract accepts
AccSorted == \A i \in 1..(Len(acc) - 1) : Lex(acc[i][1], acc[i + 1][1])
\* C12
\* (Cells = 0 is the rejecting registry: it never remembers, so it never "suffices")
NoDupUnlessEvicted == (evict = 0 /\ Cells # 0) => \A i, j \in 1..Len(emitted) : i # j => emitted[i] # emitted[j]
PrefixSet == UNION { PrefixesOf(acc[i][1]) : i \in 1..Len(acc) }
TrieBound == acc = <<>> \/ Len(emitted) <= Cardinality(PrefixSet)
\* C09: transitions point backward
Backward == \A i \in 1..Len(emitted) : \A t \in 1..Len(emitted[i].trans) :
               emitted[i].trans[t].addr = 0 \/ emitted[i].trans[t].addr < i + 1
\* C13: what the builder retains does not grow with the number of keys
MaxKeyLen == NatMax({ Len(k) : k \in Keys })
Retained == /\ Len(stack) <= MaxKeyLen + 1
            /\ Cardinality(cache) <= (IF Cells = 99 THEN Len(emitted) ELSE Cells)
\* C16: on value-increasing input only the root carries a non-zero final output
ValuesIncreasing == \A i \in 1..(Len(acc) - 1) : acc[i][2] < acc[i + 1][2]
MonotoneOutputs ==
    (pc = "done" /\ ValuesIncreasing) =>
        \A i \in 1..Len(emitted) :
            /\ (i + 1 # pend => emitted[i].fout = 0)
\* set minimality: with no eviction the emitted nodes are the distinct right
\* languages of the accepted keys (minus the shared empty final node)
RightLang(p) == { DropN(acc[i][1], Len(p)) : i \in { i \in 1..Len(acc) : IsPrefixOf(p, acc[i][1]) } }
Minimal ==
    (pc = "done" /\ evict = 0 /\ SetMode /\ Cells = 99) =>
        Len(emitted) = Cardinality({ RightLang(p) : p \in PrefixSet \cup {<<>>} } \ {{<<>>}})
=============================================================================
