-------------------------------- MODULE Mem --------------------------------
(* C13 / C14: what the builder, a traversal and a set operation retain, as  *)
(* bounds that mention the cache geometry, the largest fan-out, the longest *)
(* key and the number of streams - and NOT the number of keys inserted,     *)
(* stored or emitted.  The structural half (which variables exist and that  *)
(* none of them grows with the number of keys) is FstBuilder!Retained and   *)
(* the stack / heap shapes of FstReader / FstOps; this module turns it into *)
(* byte bounds that measurements of the real crate are judged against.      *)
EXTENDS Integers

\* sizes of the crate's records on a 64-bit target (generous)
TransBytes == 24          \* raw::Transition
CellBytes == 64           \* RegistryCell / BuilderNodeUnfinished without its transitions
FrameBytes == 128         \* one StreamState frame
Slack == 1048576          \* allocator rounding, Vec growth, constant-size buffers (generous: a
                          \* fixed buffer added by a harmless change must not look like growth)

\* a node's transition vector may have doubled its capacity
NodeBytes(maxFan) == CellBytes + 2 * maxFan * TransBytes

\* C13: builder = cache cells + unfinished stack (one frame per byte of the longest key)
BuilderBound(cells, maxFan, maxKeyLen) ==
    cells * NodeBytes(maxFan) + (maxKeyLen + 2) * NodeBytes(maxFan) + 2 * maxKeyLen + Slack

\* C14: a stream = one frame per byte of the longest key + the key buffer (doubling)
StreamBound(maxKeyLen) == 4 * (maxKeyLen + 2) * FrameBytes + 4 * maxKeyLen + 65536
\* a set operation over k streams = k streams + k slots (key buffers) + the heap
OpBound(k, maxKeyLen) == k * (StreamBound(maxKeyLen) + 256 + 4 * maxKeyLen) + 65536

\* growth allowed between a run and a run ten times larger: the default cache
\* (20 000 cells) is still filling up at 10^5 keys; a traversal has nothing to fill
GrowthSlack(what) == IF what = "build" THEN 262144 ELSE 4096
=============================================================================
