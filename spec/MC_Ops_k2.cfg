SPECIFICATION Spec
CONSTANTS
  Universe <- UniDef
  K = 2
  OpKinds = {"union", "intersection", "symmetric_difference", "difference"}
  ValModes = {"equal", "distinct"}
INVARIANTS Correct HeapBound
CHECK_DEADLOCK FALSE
