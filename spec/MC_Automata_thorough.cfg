SPECIFICATION Spec
CONSTANTS
  Syms <- SymsDef
  Stride = 3
INVARIANTS AllSound AllLang
CHECK_DEADLOCK FALSE
