------------------------------ MODULE FstSink ------------------------------
(* The sink path: raw/counting_writer.rs + std's write_all + an arbitrary   *)
(* io::Write sink.  A builder call issues a sequence of write_all(buffer);  *)
(* the sink answers every write() as it likes: accept any non-empty prefix, *)
(* Interrupted (write_all retries the same rest), an error, or Ok(0).       *)
(*                                                                          *)
(* The counter counts accepted bytes (node addresses derive from it) and    *)
(* the running checksum must be fed exactly the accepted bytes (C07, C08);  *)
(* a failed write fails the enclosing builder call (C11).                   *)
(*                                                                          *)
(* AsFound = TRUE is the pre-repair behaviour (defect D1): the checksum is   *)
(* fed the *offered* buffer before the inner write; kept as a named variant  *)
(* so that the diagnosis stays reproducible (MC_Sink_asfound.cfg violates    *)
(* Counted).                                                                *)
EXTENDS Integers, Sequences, TLC

CONSTANT AsFound

VARIABLES pending,   \* rest of the buffer of the write_all in progress (<<>>: none)
          sink,      \* bytes the sink has accepted
          cnt,       \* CountingWriter.cnt
          summed,    \* bytes the running checksum has been fed
          failed,    \* a write failed since the enclosing builder call began
          intr,      \* consecutive Interrupted results (bounded in MC only)
          flushed
svars == <<pending, sink, cnt, summed, failed, intr, flushed>>

SinkInit == pending = <<>> /\ sink = <<>> /\ cnt = 0 /\ summed = <<>> /\ failed = FALSE /\ intr = 0 /\ flushed = FALSE

\* a write(buf) call reaching the sink; write_all offers a fresh buffer or
\* the rest of the one in progress
Offered(buf) == buf # <<>> /\ ~failed /\ (pending = <<>> \/ buf = pending)

WriteAccept(buf, n) ==
    /\ Offered(buf) /\ n \in 1..Len(buf)
    /\ sink' = sink \o SubSeq(buf, 1, n)
    /\ cnt' = cnt + n
    /\ summed' = summed \o (IF AsFound THEN buf ELSE SubSeq(buf, 1, n))
    /\ pending' = SubSeq(buf, n + 1, Len(buf))
    /\ intr' = 0
    \* bytes accepted after the last flush are not flushed
    /\ flushed' = FALSE
    /\ UNCHANGED failed

WriteInterrupted(buf) ==
    /\ Offered(buf)
    /\ pending' = buf /\ intr' = intr + 1
    /\ summed' = (IF AsFound THEN summed \o buf ELSE summed)
    /\ UNCHANGED <<sink, cnt, failed, flushed>>

\* Err(kind) or Ok(0): write_all gives up; the builder call must fail
WriteFail(buf) ==
    /\ Offered(buf)
    /\ failed' = TRUE /\ pending' = <<>> /\ intr' = 0
    /\ summed' = (IF AsFound THEN summed \o buf ELSE summed)
    /\ UNCHANGED <<sink, cnt, flushed>>

FlushOk == ~failed /\ pending = <<>> /\ flushed' = TRUE /\ UNCHANGED <<pending, sink, cnt, summed, failed, intr>>
FlushFail == ~failed /\ pending = <<>> /\ failed' = TRUE /\ UNCHANGED <<pending, sink, cnt, summed, intr, flushed>>

\* the result a builder call must report when it returns
CallResult == IF failed THEN "io" ELSE "ok"
\* a call may only return once its write_all is complete (or has failed)
MayReturn == failed \/ pending = <<>>

Counted == cnt = Len(sink) /\ summed = sink
=============================================================================
