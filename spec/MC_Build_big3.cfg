SPECIFICATION Spec
CONSTANTS
  Keys <- KeysDef
  Vals <- ValsDef
  MaxCalls = 5
  Cells = 3
  SetMode = FALSE
INVARIANTS Refines AccSorted NoDupUnlessEvicted TrieBound Backward Retained MonotoneOutputs Minimal 
VIEW View
CHECK_DEADLOCK FALSE
