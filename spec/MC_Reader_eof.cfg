SPECIFICATION Spec
CONSTANTS
  Sym <- SymDef
  Universe <- UniDef
  BoundKeys <- BKTiny
  Automata <- AutEof
  MaxKeys = 2
  Placement = "push"
INVARIANTS Correct LockStep
CHECK_DEADLOCK FALSE
