SPECIFICATION Spec
CONSTANTS
  Keys <- KeysDef
  Vals <- ValsSet
  MaxCalls = 4
  Cells = 1
  SetMode = TRUE
INVARIANTS Refines AccSorted NoDupUnlessEvicted TrieBound Backward Retained MonotoneOutputs Minimal Emit

CHECK_DEADLOCK FALSE
