----------------------------- MODULE Trace_Graph -----------------------------
(* Beyond the listed properties: the graph commands of the `fst` CLI.  The   *)
(* recorder runs the real binary on a file and logs the file's bytes and     *)
(* what was printed, parsed but not interpreted; TLC decodes the node graph  *)
(* from the bytes by the format description alone (FstFormat!DecodeNode,     *)
(* from the root address in the footer) and derives what each command must   *)
(* have shown.                                                               *)
(*   GEdges  fst csv edges : one row per transition of a reachable node      *)
(*   GNodes  fst csv nodes : one row per reachable node                      *)
(*   GDot    fst dot       : the same graph in dot syntax (final nodes with  *)
(*                           two peripheries, outputs shown when non-zero,   *)
(*                           --state-names numbers the nodes 0..n-1)         *)
(*   GNode   fst node A    : the debug view of the node at address A         *)
(*   GRust   fst rust NAME : Rust source embedding the file as a literal     *)
(*   GDupes  fst dupes     : total / distinct / repeated node counts         *)
(* Rejections here are reported as EXTRA-FINDING, never as a VIOLATION of a  *)
(* listed property.                                                          *)
EXTENDS FstFormat, Json, IOUtils

Rec == ndJsonDeserialize(IOEnv.TRACE)
VARIABLES l
vars == <<l>>
E == Rec[l]
IsEvent(e) == l <= Len(Rec) /\ Rec[l].ev = e /\ l' = l + 1
Init == l = 1

SeqSet(s) == { s[i] : i \in 1..Len(s) }

\* the nodes reachable from the root, by the format alone
RECURSIVE ReachFrom(_, _, _, _)
ReachFrom(b, v, todo, seen) ==
    IF todo = {} THEN seen
    ELSE LET a == CHOOSE x \in todo : TRUE
             n == DecodeNode(b, a, v)
             succ == { n.trans[i].addr : i \in 1..Len(n.trans) } IN
         ReachFrom(b, v, (todo \cup succ) \ (seen \cup {a}), seen \cup {a})
Reach(b, v) == ReachFrom(b, v, {RootAddr(b, v)}, {})

\* address |-> decoded node, for the reachable addresses
Graph(b, v) == LET R == Reach(b, v) IN [a \in R |-> DecodeNode(b, a, v)]

EdgeSet(G) == UNION { { <<a, G[a].trans[i].addr, G[a].trans[i].inp, G[a].trans[i].out>> : i \in 1..Len(G[a].trans) } : a \in DOMAIN G }
SizeOf(G, a) == IF a = 0 THEN 0 ELSE a - G[a].start + 1
BoolText(x) == IF x THEN "true" ELSE "false"

GEdges ==
    /\ IsEvent("GEdges")
    /\ E.exit = 0
    /\ E.header = "addr_in,addr_out,input,output"
    /\ TRUE = (\E b \in {E.bytes} : \E G \in {Graph(b, VersionNat(VersionOf(b)))} :
                 /\ SeqSet(E.rows) = EdgeSet(G)
                 /\ Len(E.rows) = Cardinality(EdgeSet(G)))

GNodes ==
    /\ IsEvent("GNodes")
    /\ E.exit = 0
    /\ E.header = "addr,state,size,transitions,final,final_output"
    /\ TRUE = (\E b \in {E.bytes} : \E G \in {Graph(b, VersionNat(VersionOf(b)))} :
                 /\ SeqSet(E.rows) = { <<a, G[a].form, SizeOf(G, a), Len(G[a].trans), BoolText(G[a].final), G[a].fout>> : a \in DOMAIN G }
                 /\ Len(E.rows) = Cardinality(DOMAIN G))

GDot ==
    /\ IsEvent("GDot")
    /\ E.exit = 0 /\ E.other = 0 /\ E.closed
    /\ TRUE = (\E b \in {E.bytes} : \E G \in {Graph(b, VersionNat(VersionOf(b)))} :
                 /\ { <<E.nodes[i][1], E.nodes[i][3]>> : i \in 1..Len(E.nodes) } = { <<a, G[a].final>> : a \in DOMAIN G }
                 /\ Len(E.nodes) = Cardinality(DOMAIN G)
                 \* names: a numbering of the nodes; no names: empty labels
                 /\ IF E.names THEN { E.nodes[i][2] : i \in 1..Len(E.nodes) } = { <<j>> : j \in 0..(Len(E.nodes) - 1) }
                    ELSE \A i \in 1..Len(E.nodes) : E.nodes[i][2] = <<>>
                 \* an output is shown exactly when it is not zero
                 /\ SeqSet(E.edges) = { <<e[1], e[2], e[3], e[4] # UZero, e[4]>> : e \in EdgeSet(G) }
                 /\ Len(E.edges) = Cardinality(EdgeSet(G)))

FormName(f) == CASE f = "OTN" -> "OneTransNext" [] f = "OT" -> "OneTrans" [] f = "AT" -> "AnyTrans" [] f = "EF" -> "EmptyFinal"
GNode ==
    /\ IsEvent("GNode")
    /\ E.exit = 0 /\ E.bad = 0 /\ E.head
    /\ TRUE = (\E b \in {E.bytes} : \E G \in {Graph(b, VersionNat(VersionOf(b)))} :
                 /\ E.addr \in DOMAIN G
                 /\ \E n \in {G[E.addr]} :
                    /\ E.start = E.addr /\ E.end = n.start /\ E.size = SizeOf(G, E.addr)
                    /\ E.sname = FormName(n.form)
                    /\ E.sbyte = (IF E.addr = 0 THEN <<>> ELSE <<Rd(b, E.addr)>>)
                    /\ E.final = BoolText(n.final) /\ E.fout = n.fout
                    /\ E.ntrans = Len(n.trans)
                    /\ E.trans = [i \in 1..Len(n.trans) |-> <<n.trans[i].inp, n.trans[i].out # UZero, n.trans[i].out, n.trans[i].addr>>])

\* fst rust: source text whose byte string literal, read the way the Rust lexer reads it, is
\* the file; lines stay within 80 columns
GRust ==
    /\ IsEvent("GRust")
    /\ E.exit = 0 /\ E.refers /\ E.literal
    /\ E.maxcol <= 80
    /\ E.decoded = E.bytes

\* fst dupes: how many nodes, how many different ones (by final flag, final output and
\* transitions), how many occur more than `min` times
NodeVal(n) == <<n.final, n.fout, n.trans>>
GDupes ==
    /\ IsEvent("GDupes")
    /\ E.exit = 0
    /\ TRUE = (\E b \in {E.bytes} : \E G \in {Graph(b, VersionNat(VersionOf(b)))} :
                 LET vals == { NodeVal(G[a]) : a \in DOMAIN G } IN
                 /\ E.total = Cardinality(DOMAIN G)
                 /\ E.unique = Cardinality(vals)
                 /\ E.dups = Cardinality({ v \in vals : Cardinality({ a \in DOMAIN G : NodeVal(G[a]) = v }) > E.min }))

Next == GEdges \/ GNodes \/ GDot \/ GNode \/ GRust \/ GDupes
Spec == Init /\ [][Next]_vars
Accepted ==
    LET d == TLCGet("stats").diameter IN
    IF d - 1 = Len(Rec) THEN PrintT(<<"TRACE-ACCEPTED", Len(Rec)>>)
    ELSE PrintT(<<"TRACE-REJECTED", d>>) /\ FALSE
=============================================================================
