SPECIFICATION Spec
CONSTANTS
  Modes = {"nodes","wide","files"}
  MaxDist = 64
  Versions = {1,3}
INVARIANTS CrcOK NodesOK WideOK FilesOK SyndromeOK
CHECK_DEADLOCK FALSE
