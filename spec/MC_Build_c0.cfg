SPECIFICATION Spec
CONSTANTS
  Keys <- KeysDef
  Vals <- ValsDef
  MaxCalls = 3
  Cells = 0
  SetMode = FALSE
INVARIANTS Refines AccSorted NoDupUnlessEvicted TrieBound Backward Retained MonotoneOutputs Minimal 
VIEW View
CHECK_DEADLOCK FALSE
