SPECIFICATION Spec
CONSTANTS
  Modes = {"files"}
  MaxDist = 64
  Versions = {3}
INVARIANTS CrcOK NodesOK WideOK FilesOK SyndromeOK
CHECK_DEADLOCK FALSE
