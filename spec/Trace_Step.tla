------------------------------ MODULE Trace_Step ------------------------------
(* Code -> spec, in lock step with FstBuilder itself: the actions of        *)
(* FstBuilder.tla (CallInsert, Reject, FreezeOne, EndFreeze, CallFinish,    *)
(* EndFinish) are replayed against the calls of a real build and against    *)
(* every node the real builder hands to its node compiler (hook H2), in     *)
(* order.  The specification's builder state - the unfinished stack with    *)
(* its pending outputs, the frozen nodes - is carried along; a real compile *)
(* event is accepted only if its node IS the node the specification freezes *)
(* at that point (addresses translated), so the code is shown to follow the *)
(* algorithm whose invariants MC_Build establishes, not merely to produce   *)
(* outputs with the same meaning.                                           *)
(*   LNew    {set}                          a new builder                   *)
(*   LCall   {k, v, res, comp}              insert / add and the nodes      *)
(*                                          compiled during the call        *)
(*   LFinish {res, comp, items}             finish                          *)
(*   comp = <<[final, fout, trans: <<<<inp, out, addr>>..>>, kind, addr]>>  *)
(* The node cache is a resolution of the specification's nondeterminism     *)
(* that the event states (kind 1 = hit at addr, 2 = emitted at addr); the   *)
(* cache properties are Trace_Build's.  For caches of ONE row (no hash      *)
(* involved) and for no cache at all the replacement policy of the code is  *)
(* replayed too: `mru` holds the cached nodes, most recently used first; a  *)
(* node is found iff it is in there and moves to the front; a node that is  *)
(* not is emitted, enters at the front and pushes out the last one when the *)
(* row is full - which is when, and only when, the hook reports an eviction.*)
(* A rejection here is drift between algorithm and specification, reported  *)
(* as such and not as the violation of a listed property.                   *)
EXTENDS FstBuilder, Json, IOUtils

Rec == ndJsonDeserialize(IOEnv.TRACE)
VARIABLES l,      \* the event being replayed
          ci,     \* the next compile event of that call
          amap,   \* real address -> specification address of emitted nodes
          mru,    \* one-row caches: specification addresses of the cached nodes, most recent first
          geo     \* <<rows, columns>> of the cache of the current build
tvars == <<vars, l, ci, amap, mru, geo>>
E == Rec[l]

InitState ==
    /\ stack = <<EmptyFrame(FALSE)>> /\ emitted = <<>> /\ cache = {} /\ evict = 0
    /\ last = None /\ acc = <<>> /\ hist = <<>>
    /\ pc = "idle" /\ tgt = 0 /\ pend = NONE_ADDR /\ sfx = <<>> /\ sout = 0
TInit == InitState /\ l = 1 /\ ci = 1 /\ amap = [x \in {0} |-> 0] /\ mru = <<>> /\ geo = <<0, 0>>

\* the next recorded compile event, addresses translated
CE == E.comp[ci]
Known(ra) == ra \in DOMAIN amap
TransOK(ce) == \A i \in 1..Len(ce.trans) : Known(ce.trans[i][3])
NodeOfEvent(ce) ==
    [final |-> ce.final, fout |-> ce.fout,
     trans |-> [i \in 1..Len(ce.trans) |-> [inp |-> ce.trans[i][1], out |-> ce.trans[i][2], addr |-> amap[ce.trans[i][3]]]]]

\* the replacement policy of a one-row cache (and of no cache)
Tracked == geo[1] = 1
Without(q, i) == [j \in 1..(Len(q) - 1) |-> IF j < i THEN q[j] ELSE q[j + 1]]
InRow(n) == \E i \in 1..Len(mru) : emitted[mru[i] - 1] = n
RegHit(a) ==
    IF ~Tracked THEN geo[1] # 0 /\ UNCHANGED mru
    ELSE /\ ~CE.evicted
         /\ \E i \in 1..Len(mru) : mru[i] = a /\ mru' = <<a>> \o Without(mru, i)
RegMiss(n, a) ==
    IF ~Tracked THEN (geo[1] = 0 => ~CE.evicted) /\ UNCHANGED mru
    ELSE /\ ~InRow(n)
         /\ CE.evicted = (Len(mru) = geo[2])
         /\ mru' = <<a>> \o (IF Len(mru) = geo[2] THEN Without(mru, Len(mru)) ELSE mru)

\* compile(n) as the event resolved it
CompileT(n) ==
    /\ ci <= Len(E.comp)
    /\ TransOK(CE)
    /\ n = NodeOfEvent(CE)
    /\ ci' = ci + 1
    /\ CASE CE.kind = 0 -> /\ IsEmptyFinalNode(n) /\ CE.addr = 0
                           /\ pend' = 0 /\ UNCHANGED <<emitted, cache, evict, amap, mru>>
         [] CE.kind = 1 -> /\ ~IsEmptyFinalNode(n)
                           /\ Known(CE.addr) /\ amap[CE.addr] >= 2
                           /\ emitted[amap[CE.addr] - 1] = n
                           /\ RegHit(amap[CE.addr])
                           /\ pend' = amap[CE.addr] /\ UNCHANGED <<emitted, cache, evict, amap>>
         [] CE.kind = 2 -> /\ ~IsEmptyFinalNode(n)
                           /\ ~Known(CE.addr)
                           /\ RegMiss(n, Len(emitted) + 2)
                           /\ emitted' = Append(emitted, n)
                           /\ pend' = Len(emitted) + 2
                           /\ amap' = [x \in (DOMAIN amap) \cup {CE.addr} |-> IF x = CE.addr THEN Len(emitted) + 2 ELSE amap[x]]
                           /\ UNCHANGED <<cache, evict>>

ResOf(verdict, k) ==
    CASE verdict = "ok" -> [err |-> "none"]
      [] verdict = "dup" -> [err |-> "DuplicateKey", got |-> k]
      [] verdict = "ooo" -> [err |-> "OutOfOrder", previous |-> last[1], got |-> k]

LNew ==
    /\ l <= Len(Rec) /\ E.ev = "LNew" /\ pc \in {"idle", "done"}
    /\ E.set = SetMode
    /\ stack' = <<EmptyFrame(FALSE)>> /\ emitted' = <<>> /\ cache' = {} /\ evict' = 0
    /\ last' = None /\ acc' = <<>> /\ hist' = <<>>
    /\ pc' = "idle" /\ tgt' = 0 /\ pend' = NONE_ADDR /\ sfx' = <<>> /\ sout' = 0
    /\ l' = l + 1 /\ ci' = 1 /\ amap' = [x \in {0} |-> 0]
    /\ mru' = <<>> /\ geo' = <<E.rows, E.cols>>

\* a call begins: the verdict is the specification's, the result the code's
LCallBegin ==
    /\ l <= Len(Rec) /\ E.ev = "LCall" /\ pc = "idle" /\ ci = 1
    /\ E.res = ResOf(Verdict(E.k), E.k)
    /\ IF Verdict(E.k) = "ok" THEN CallInsert(E.k, E.v) ELSE Reject(E.k, E.v) /\ E.comp = <<>>
    /\ UNCHANGED <<ci, amap, mru, geo>>
    \* calls that leave the builder idle are complete
    /\ IF pc' = "idle" THEN E.comp = <<>> /\ l' = l + 1 ELSE l' = l

LFreeze ==
    /\ l <= Len(Rec) /\ E.ev \in {"LCall", "LFinish"}
    /\ FreezeOneW(CompileT)
    /\ UNCHANGED <<l, geo>>

LCallEnd ==
    /\ l <= Len(Rec) /\ E.ev = "LCall" /\ pc = "freeze"
    /\ ci = Len(E.comp) + 1                 \* every recorded compile was the specification's
    /\ EndFreeze
    /\ l' = l + 1 /\ ci' = 1 /\ UNCHANGED <<amap, mru, geo>>

LFinishBegin ==
    /\ l <= Len(Rec) /\ E.ev = "LFinish" /\ pc = "idle" /\ ci = 1
    /\ E.res = [err |-> "none"]
    /\ CallFinish
    /\ UNCHANGED <<l, ci, amap, mru, geo>>

LFinishEnd ==
    /\ l <= Len(Rec) /\ E.ev = "LFinish"
    /\ EndFinishW(CompileT)
    /\ ci' = Len(E.comp) + 1                \* the root was the last compile
    /\ UNCHANGED <<l, geo>>

\* the finished state denotes the accepted pairs, which are the items the harness kept
LDone ==
    /\ l <= Len(Rec) /\ E.ev = "LFinish" /\ pc = "done" /\ ci = Len(E.comp) + 1
    /\ TRUE = (LangN(pend, <<>>, 0) = AccSet)
    /\ TRUE = (AccSet = { <<E.items[i][1], E.items[i][2]>> : i \in 1..Len(E.items) })
    /\ E.root = (IF pend = 0 THEN 0 ELSE CHOOSE ra \in DOMAIN amap : amap[ra] = pend)
    /\ l' = l + 1 /\ ci' = 1
    /\ UNCHANGED <<vars, amap, mru, geo>>

TNext == LNew \/ LCallBegin \/ LFreeze \/ LCallEnd \/ LFinishBegin \/ LFinishEnd \/ LDone
TSpec == TInit /\ [][TNext]_tvars

Track == TLCSet(1, l)
Accepted ==
    LET d == TLCGet(1) IN
    IF d = Len(Rec) + 1 THEN PrintT(<<"TRACE-ACCEPTED", Len(Rec)>>)
    ELSE PrintT(<<"TRACE-REJECTED", d>>) /\ FALSE
=============================================================================
