------------------------------ MODULE Trace_Step ------------------------------
(* Code -> spec, in lock step with FstBuilder itself: the actions of        *)
(* FstBuilder.tla (CallInsert, Reject, FreezeOne, EndFreeze, CallFinish,    *)
(* EndFinish) are replayed against the calls of a real build and against    *)
(* every node the real builder hands to its node compiler (hook H2), in     *)
(* order.  The specification's builder state - the unfinished stack with    *)
(* its pending outputs, the frozen nodes - is carried along; a real compile *)
(* event is accepted only if its node IS the node the specification freezes *)
(* at that point (addresses translated), so the code is shown to follow the *)
(* algorithm whose invariants MC_Build establishes, not merely to produce   *)
(* outputs with the same meaning.                                           *)
(*   LNew    {set}                          a new builder                   *)
(*   LCall   {k, v, res, comp}              insert / add and the nodes      *)
(*                                          compiled during the call        *)
(*   LFinish {res, comp, items}             finish                          *)
(*   comp = <<[final, fout, trans: <<<<inp, out, addr>>..>>, kind, addr]>>  *)
(* The node cache is not replayed (its behaviour is a resolution of the     *)
(* specification's nondeterminism that the event states: kind 1 = hit at    *)
(* addr, 2 = emitted at addr); the cache properties are Trace_Build's.      *)
(* A rejection here is drift between algorithm and specification, reported  *)
(* as such and not as the violation of a listed property.                   *)
EXTENDS FstBuilder, Json, IOUtils

Rec == ndJsonDeserialize(IOEnv.TRACE)
VARIABLES l,      \* the event being replayed
          ci,     \* the next compile event of that call
          amap    \* real address -> specification address of emitted nodes
tvars == <<vars, l, ci, amap>>
E == Rec[l]

InitState ==
    /\ stack = <<EmptyFrame(FALSE)>> /\ emitted = <<>> /\ cache = {} /\ evict = 0
    /\ last = None /\ acc = <<>> /\ hist = <<>>
    /\ pc = "idle" /\ tgt = 0 /\ pend = NONE_ADDR /\ sfx = <<>> /\ sout = 0
TInit == InitState /\ l = 1 /\ ci = 1 /\ amap = [x \in {0} |-> 0]

\* the next recorded compile event, addresses translated
CE == E.comp[ci]
Known(ra) == ra \in DOMAIN amap
TransOK(ce) == \A i \in 1..Len(ce.trans) : Known(ce.trans[i][3])
NodeOfEvent(ce) ==
    [final |-> ce.final, fout |-> ce.fout,
     trans |-> [i \in 1..Len(ce.trans) |-> [inp |-> ce.trans[i][1], out |-> ce.trans[i][2], addr |-> amap[ce.trans[i][3]]]]]

\* compile(n) as the event resolved it
CompileT(n) ==
    /\ ci <= Len(E.comp)
    /\ TransOK(CE)
    /\ n = NodeOfEvent(CE)
    /\ ci' = ci + 1
    /\ CASE CE.kind = 0 -> /\ IsEmptyFinalNode(n) /\ CE.addr = 0
                           /\ pend' = 0 /\ UNCHANGED <<emitted, cache, evict, amap>>
         [] CE.kind = 1 -> /\ ~IsEmptyFinalNode(n)
                           /\ Known(CE.addr) /\ amap[CE.addr] >= 2
                           /\ emitted[amap[CE.addr] - 1] = n
                           /\ pend' = amap[CE.addr] /\ UNCHANGED <<emitted, cache, evict, amap>>
         [] CE.kind = 2 -> /\ ~IsEmptyFinalNode(n)
                           /\ ~Known(CE.addr)
                           /\ emitted' = Append(emitted, n)
                           /\ pend' = Len(emitted) + 2
                           /\ amap' = [x \in (DOMAIN amap) \cup {CE.addr} |-> IF x = CE.addr THEN Len(emitted) + 2 ELSE amap[x]]
                           /\ UNCHANGED <<cache, evict>>

ResOf(verdict, k) ==
    CASE verdict = "ok" -> [err |-> "none"]
      [] verdict = "dup" -> [err |-> "DuplicateKey", got |-> k]
      [] verdict = "ooo" -> [err |-> "OutOfOrder", previous |-> last[1], got |-> k]

LNew ==
    /\ l <= Len(Rec) /\ E.ev = "LNew" /\ pc \in {"idle", "done"}
    /\ E.set = SetMode
    /\ stack' = <<EmptyFrame(FALSE)>> /\ emitted' = <<>> /\ cache' = {} /\ evict' = 0
    /\ last' = None /\ acc' = <<>> /\ hist' = <<>>
    /\ pc' = "idle" /\ tgt' = 0 /\ pend' = NONE_ADDR /\ sfx' = <<>> /\ sout' = 0
    /\ l' = l + 1 /\ ci' = 1 /\ amap' = [x \in {0} |-> 0]

\* a call begins: the verdict is the specification's, the result the code's
LCallBegin ==
    /\ l <= Len(Rec) /\ E.ev = "LCall" /\ pc = "idle" /\ ci = 1
    /\ E.res = ResOf(Verdict(E.k), E.k)
    /\ IF Verdict(E.k) = "ok" THEN CallInsert(E.k, E.v) ELSE Reject(E.k, E.v) /\ E.comp = <<>>
    /\ UNCHANGED <<ci, amap>>
    \* calls that leave the builder idle are complete
    /\ IF pc' = "idle" THEN E.comp = <<>> /\ l' = l + 1 ELSE l' = l

LFreeze ==
    /\ l <= Len(Rec) /\ E.ev \in {"LCall", "LFinish"}
    /\ FreezeOneW(CompileT)
    /\ UNCHANGED l

LCallEnd ==
    /\ l <= Len(Rec) /\ E.ev = "LCall" /\ pc = "freeze"
    /\ ci = Len(E.comp) + 1                 \* every recorded compile was the specification's
    /\ EndFreeze
    /\ l' = l + 1 /\ ci' = 1 /\ UNCHANGED amap

LFinishBegin ==
    /\ l <= Len(Rec) /\ E.ev = "LFinish" /\ pc = "idle" /\ ci = 1
    /\ E.res = [err |-> "none"]
    /\ CallFinish
    /\ UNCHANGED <<l, ci, amap>>

LFinishEnd ==
    /\ l <= Len(Rec) /\ E.ev = "LFinish"
    /\ EndFinishW(CompileT)
    /\ ci' = Len(E.comp) + 1                \* the root was the last compile
    /\ UNCHANGED l

\* the finished state denotes the accepted pairs, which are the items the harness kept
LDone ==
    /\ l <= Len(Rec) /\ E.ev = "LFinish" /\ pc = "done" /\ ci = Len(E.comp) + 1
    /\ TRUE = (LangN(pend, <<>>, 0) = AccSet)
    /\ TRUE = (AccSet = { <<E.items[i][1], E.items[i][2]>> : i \in 1..Len(E.items) })
    /\ E.root = (IF pend = 0 THEN 0 ELSE CHOOSE ra \in DOMAIN amap : amap[ra] = pend)
    /\ l' = l + 1 /\ ci' = 1
    /\ UNCHANGED <<vars, amap>>

TNext == LNew \/ LCallBegin \/ LFreeze \/ LCallEnd \/ LFinishBegin \/ LFinishEnd \/ LDone
TSpec == TInit /\ [][TNext]_tvars

Track == TLCSet(1, l)
Accepted ==
    LET d == TLCGet(1) IN
    IF d = Len(Rec) + 1 THEN PrintT(<<"TRACE-ACCEPTED", Len(Rec)>>)
    ELSE PrintT(<<"TRACE-REJECTED", d>>) /\ FALSE
=============================================================================
