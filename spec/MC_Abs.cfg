SPECIFICATION Spec
INVARIANTS ContentSorted LookupAgree RankExists RangeAgree MergeAgree OpAgree OpMeaning InverseAgree U64Agree
CHECK_DEADLOCK FALSE
