------------------------------- MODULE FstAbs -------------------------------
(* Layer A: the library as an abstract data type - what a user relies on.   *)
(*                                                                          *)
(* A built FST *is* its content: a strictly key-increasing sequence of      *)
(* <<key, value>> pairs.  Every definition below is the statement of one of *)
(* the listed properties.  Definitions come in two forms:                   *)
(*   - the declarative one (Lookup, RangeSeq, MergeTable, ...), and         *)
(*   - an O(1) "certified" one that takes an untrusted hint (a rank, an     *)
(*     index, a claimed table) and *checks* it; MC_Abs shows both forms     *)
(*     agree on every instance of a small scope, and trace validation uses  *)
(*     the certified form so that it stays linear in the trace length.      *)
EXTENDS Bytes, U64, TLC

---------------------------------------------------------------------------
(* Content *)
KeyOf(it) == it[1]
ValOf(it) == it[2]
IsContent(c) == \A i \in 1..(Len(c) - 1) : Lex(c[i][1], c[i + 1][1])
KeySet(c) == { c[i][1] : i \in 1..Len(c) }

---------------------------------------------------------------------------
(* C06: the ordering contract.  `last` is an Option (key of the last       *)
(* accepted call).  "insert" is the map form (duplicates are errors),      *)
(* "add" the set form (a repeat is accepted and is a no-op).               *)
OkRes == [err |-> "none"]
DupErr(k) == [err |-> "DuplicateKey", got |-> k]
OooErr(p, k) == [err |-> "OutOfOrder", previous |-> p, got |-> k]

InsertResult(call, last, k) ==
    IF last = None THEN OkRes
    ELSE IF call = "insert" /\ k = last[1] THEN DupErr(k)
    ELSE IF Lex(k, last[1]) THEN OooErr(last[1], k)
    ELSE OkRes

\* does an accepted call extend the content?  (a set repeat does not)
Extends(call, last, k) == ~(call = "add" /\ last # None /\ last[1] = k)

\* the abstract builder step: <<result, last', acc'>>
BuilderStep(call, last, acc, k, v) ==
    LET r == InsertResult(call, last, k) IN
    IF r # OkRes THEN <<r, last, acc>>            \* rejected: no trace
    ELSE IF Extends(call, last, k) THEN <<r, Some(k), Append(acc, <<k, v>>)>>
    ELSE <<r, last, acc>>

\* extend_iter / extend_stream / from_iter: stop at the first rejected item
RECURSIVE ExtendFrom(_, _, _, _, _)
ExtendFrom(call, last, acc, items, i) ==
    IF i > Len(items) THEN <<OkRes, last, acc>>
    ELSE LET s == BuilderStep(call, last, acc, items[i][1], items[i][2]) IN
         IF s[1] # OkRes THEN s ELSE ExtendFrom(call, s[2], s[3], items, i + 1)

---------------------------------------------------------------------------
(* C02: point lookups *)
Lookup(c, k) ==
    LET I == { i \in 1..Len(c) : c[i][1] = k } IN
    IF I = {} THEN None ELSE Some(c[CHOOSE i \in I : TRUE][2])
HasKey(c, k) == \E i \in 1..Len(c) : c[i][1] = k

\* r = number of keys of c strictly below k (an untrusted hint, checked here)
RankOK(c, k, r) ==
    /\ r \in 0..Len(c)
    /\ (r > 0 => Lex(c[r][1], k))
    /\ (r < Len(c) => Leq(k, c[r + 1][1]))
LookupAt(c, k, r) ==
    IF r < Len(c) /\ c[r + 1][1] = k THEN Some(c[r + 1][2]) ELSE None

---------------------------------------------------------------------------
(* C03: bounds.  lo \in {<<"none">>, <<"ge",k>>, <<"gt",k>>},              *)
(*               hi \in {<<"none">>, <<"le",k>>, <<"lt",k>>}.              *)
(* A stream builder receives a sequence of bound calls; the last call of   *)
(* each side wins.                                                         *)
NoBound == <<"none">>
AboveLo(lo, k) == CASE lo[1] = "ge" -> Leq(lo[2], k)
                    [] lo[1] = "gt" -> Lex(lo[2], k)
                    [] OTHER -> TRUE
BelowHi(hi, k) == CASE hi[1] = "le" -> Leq(k, hi[2])
                    [] hi[1] = "lt" -> Lex(k, hi[2])
                    [] OTHER -> TRUE
InRange(lo, hi, k) == AboveLo(lo, k) /\ BelowHi(hi, k)

RECURSIVE LastOfKind(_, _, _)
LastOfKind(calls, kinds, i) ==
    IF i = 0 THEN NoBound
    ELSE IF calls[i][1] \in kinds THEN calls[i]
    ELSE LastOfKind(calls, kinds, i - 1)
EffLo(calls) == LastOfKind(calls, {"ge", "gt"}, Len(calls))
EffHi(calls) == LastOfKind(calls, {"le", "lt"}, Len(calls))

\* certified interval: from = #keys failing the lower bound (a prefix of c),
\* to = #keys satisfying the upper bound (also a prefix, c is sorted)
FromOK(c, lo, from) ==
    /\ from \in 0..Len(c)
    /\ (from > 0 => ~AboveLo(lo, c[from][1]))
    /\ (from < Len(c) => AboveLo(lo, c[from + 1][1]))
ToOK(c, hi, to) ==
    /\ to \in 0..Len(c)
    /\ (to > 0 => BelowHi(hi, c[to][1]))
    /\ (to < Len(c) => ~BelowHi(hi, c[to + 1][1]))

---------------------------------------------------------------------------
(* C04: automata as tables.  States are 1..n, `cls` maps byte+1 to a class  *)
(* index, delta[s][class] is the next state.  `can` is the set of states    *)
(* where can_match is true, `always` where will_always_match is true.       *)
AStep(A, s, b) == A.delta[s][A.cls[b + 1]]
RECURSIVE ARunFrom(_, _, _, _)
ARunFrom(A, s, k, i) == IF i > Len(k) THEN s ELSE ARunFrom(A, AStep(A, s, k[i]), k, i + 1)
ARun(A, k) == ARunFrom(A, A.start, k, 1)
\* `eof` is the table of the optional end-of-key hook (Automaton::accept_eof): 0, or the
\* state the hook moves to.  C04 excludes the hook (all entries 0); with it, as the reader is
\* coded (FstReader!EofMatch), the verdict on a non-empty key is taken in the hook's state
\* and the empty key is judged in the start state without asking the hook.
AEofMatch(A, s) == IF A.eof[s] # 0 THEN A.eof[s] \in A.match ELSE s \in A.match
Accepts(A, k) == IF k = <<>> THEN A.start \in A.match ELSE AEofMatch(A, ARun(A, k))

\* the contract of C04 / C18: hints are sound
AReach(A, s) ==
    LET Cls == { A.cls[i] : i \in 1..256 }
        RECURSIVE F(_)
        F(S) == LET T == S \cup { A.delta[x][c] : x \in S, c \in Cls }
                IN  IF T = S THEN S ELSE F(T)
    IN  F({s})
ASound(A) == \A s \in 1..A.n :
                /\ (s \notin A.can => AReach(A, s) \cap A.match = {})
                /\ (s \in A.always => AReach(A, s) \subseteq A.match)

\* The stream: all in-range, accepted entries, in order.  `aut` is an Option.
Selected(c, lo, hi, aut, i) ==
    /\ InRange(lo, hi, c[i][1])
    /\ (IF aut = None THEN TRUE ELSE Accepts(aut[1], c[i][1]))
RangeSeq(c, lo, hi, aut) ==
    LET RECURSIVE F(_)
        F(i) == IF i > Len(c) THEN <<>>
                ELSE IF Selected(c, lo, hi, aut, i) THEN <<c[i]>> \o F(i + 1)
                ELSE F(i + 1)
    IN  F(1)

\* certified next(): positions pos+1 .. idx-1 are skipped, idx is emitted
\* (idx = 0 stands for "exhausted": every remaining position is skipped)
NextOK(c, from, to, aut, pos, idx) ==
    LET stop == IF idx = 0 THEN to + 1 ELSE idx
        start == IF pos < from THEN from + 1 ELSE pos + 1
    IN  /\ (idx # 0 => idx >= start /\ idx <= to)
        \* (IF, not \/: inside an action TLC explores both sides of a disjunction)
        /\ \A i \in start..(stop - 1) : IF aut = None THEN FALSE ELSE ~Accepts(aut[1], c[i][1])
        /\ (idx # 0 => (IF aut = None THEN TRUE ELSE Accepts(aut[1], c[idx][1])))

---------------------------------------------------------------------------
(* C05: set operations over K inputs (each a content).  The merge table    *)
(* lists every key of any input once, ascending, with the set of           *)
(* <<stream index (0-based), value>> pairs of the inputs holding it.       *)
AllKeys(ins) == UNION { KeySet(ins[j]) : j \in 1..Len(ins) }
Holders(ins, k) ==
    { <<j - 1, Unwrap(Lookup(ins[j], k))>> : j \in { j \in 1..Len(ins) : HasKey(ins[j], k) } }

\* certified form: T is a claimed table, a sequence of <<key, holders>>
IsMergeTable(T, ins) ==
    /\ \A i \in 1..(Len(T) - 1) : Lex(T[i][1], T[i + 1][1])
    /\ \A i \in 1..Len(T) : T[i][2] # {}
                            /\ \A h1 \in T[i][2] : h1[1] \in 0..(Len(ins) - 1)
                            /\ \A h2, g2 \in T[i][2] : h2[1] = g2[1] => h2 = g2
    /\ \A j \in 1..Len(ins) :
          LET Rows == SelectSeq(T, LAMBDA row : \E h \in row[2] : h[1] = j - 1)
          IN  /\ Len(Rows) = Len(ins[j])
              /\ \A n \in 1..Len(Rows) :
                    /\ Rows[n][1] = ins[j][n][1]
                    /\ <<j - 1, ins[j][n][2]>> \in Rows[n][2]

OpEmits(op, K, holders) ==
    CASE op = "union" -> TRUE
      [] op = "intersection" -> Cardinality(holders) = K
      [] op = "symmetric_difference" -> Cardinality(holders) % 2 = 1
      [] op = "difference" -> \A h \in holders : h[1] = 0
\* what is reported with an emitted key
OpOuts(op, holders) ==
    IF op = "difference" THEN { h \in holders : h[1] = 0 } ELSE holders

OpSeq(op, T, K) ==
    LET RECURSIVE F(_)
        F(i) == IF i > Len(T) THEN <<>>
                ELSE IF OpEmits(op, K, T[i][2])
                     THEN << <<T[i][1], OpOuts(op, T[i][2])>> >> \o F(i + 1)
                ELSE F(i + 1)
    IN  F(1)

\* certified next() of an operation stream
OpNextOK(op, T, K, pos, idx) ==
    LET stop == IF idx = 0 THEN Len(T) + 1 ELSE idx IN
    /\ (idx # 0 => idx > pos /\ idx <= Len(T) /\ OpEmits(op, K, T[idx][2]))
    /\ \A i \in (pos + 1)..(stop - 1) : ~OpEmits(op, K, T[i][2])

IsDisjoint(a, b) == KeySet(a) \cap KeySet(b) = {}
IsSubset(a, b) == KeySet(a) \subseteq KeySet(b)      \* a.is_subset(b)
IsSuperset(a, b) == KeySet(b) \subseteq KeySet(a)    \* a.is_superset(b)

---------------------------------------------------------------------------
(* C16: get_key on maps whose values strictly increase in key order *)
ValuesIncrease(c) == \A i \in 1..(Len(c) - 1) : ULt(c[i][2], c[i + 1][2])
InverseOf(c, v) ==
    LET I == { i \in 1..Len(c) : c[i][2] = v } IN
    IF I = {} THEN None ELSE Some(c[CHOOSE i \in I : TRUE][1])
VRankOK(c, v, r) ==
    /\ r \in 0..Len(c)
    /\ (r > 0 => ULt(c[r][2], v))
    /\ (r < Len(c) => ULeq(v, c[r + 1][2]))
InverseAt(c, v, r) ==
    IF r < Len(c) /\ c[r + 1][2] = v THEN Some(c[r + 1][1]) ELSE None

---------------------------------------------------------------------------
(* C19: merge of rows with repeated keys *)
MergeVals(mode, a, b) ==
    CASE mode = "sum" -> UAdd(a, b)
      [] mode = "max" -> UMax(a, b)
      [] mode = "min" -> UMin(a, b)
=============================================================================
