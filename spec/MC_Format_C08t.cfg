SPECIFICATION Spec
CONSTANTS
  Modes = {"crc","syndrome"}
  MaxDist = 4096
  Versions = {3}
INVARIANTS CrcOK NodesOK WideOK FilesOK SyndromeOK
CHECK_DEADLOCK FALSE
