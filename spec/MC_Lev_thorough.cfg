SPECIFICATION Spec
CONSTANTS
  Enc <- EncDef
  MaxQ = 3
  MaxK = 3
  MaxD = 2
  Fixed = TRUE
  Limit = 10000
INVARIANTS DfaOK RowOK
CHECK_DEADLOCK FALSE
