SPECIFICATION Spec
CONSTANTS
  Universe <- UniSmall
  K = 4
  OpKinds = {"union", "intersection", "symmetric_difference", "difference"}
  ValModes = {"equal", "distinct"}
INVARIANTS Correct HeapBound
CHECK_DEADLOCK FALSE
