SPECIFICATION Spec
CONSTANTS
  Sym <- SymDef
  Universe <- UniDef
  BoundKeys <- BKDef
  Automata <- AlwaysOnly
  MaxKeys = 3
  Placement = "final"
INVARIANTS Correct LockStep LookupOK GetKeyOK
CHECK_DEADLOCK FALSE
