------------------------------ MODULE Trace_Lev ------------------------------
(* Code -> spec for C17: the real Levenshtein automaton's verdicts on keys, *)
(* its search results and its behaviour under state limits, judged against  *)
(* the declarative edit distance of Lev.tla.  Strings are sequences of      *)
(* abstract characters (indices into the alphabet the recorder used); the   *)
(* recorder feeds their UTF-8 encodings to the real automaton.              *)
EXTENDS Integers, Sequences, FiniteSets, TLC, Json, IOUtils

Rec == ndJsonDeserialize(IOEnv.TRACE)
VARIABLES l, okAt     \* okAt: <<q, d>> |-> smallest limit seen to succeed
vars == <<l, okAt>>
E == Rec[l]
IsEvent(e) == l <= Len(Rec) /\ Rec[l].ev = e /\ l' = l + 1

Min2(a, b) == IF a <= b THEN a ELSE b
\* declarative edit distance (short strings)
RECURSIVE ED(_, _)
ED(a, b) == IF a = <<>> THEN Len(b) ELSE IF b = <<>> THEN Len(a) ELSE
    Min2(Min2(ED(Tail(a), b) + 1, ED(a, Tail(b)) + 1), ED(Tail(a), Tail(b)) + (IF a[1] = b[1] THEN 0 ELSE 1))
\* Wagner-Fischer rows (longer strings); agrees with ED (MC_Lev: RowOK)
RECURSIVE WFRow(_, _, _, _)
WFRow(q, prev, c, nxt) ==
    LET i == Len(nxt) IN
    IF i > Len(q) THEN nxt
    ELSE WFRow(q, prev, c, Append(nxt, Min2(Min2(nxt[i] + 1, prev[i + 1] + 1), prev[i] + (IF q[i] = c THEN 0 ELSE 1))))
RECURSIVE WF(_, _, _, _)
WF(q, k, j, row) == IF j > Len(k) THEN row[Len(row)] ELSE WF(q, k, j + 1, WFRow(q, row, k[j], <<row[1] + 1>>))
Dist(q, k) == IF Len(q) + Len(k) <= 7 THEN ED(q, k) ELSE WF(q, k, 1, [i \in 1..(Len(q) + 1) |-> i - 1])

Init == l = 1 /\ okAt = [x \in {} |-> 0]

\* is_match after feeding the key's bytes
LevM == /\ IsEvent("LevM")
        /\ E.m = (Dist(E.q, E.k) <= E.d)
        /\ UNCHANGED okAt

\* searching a set with the automaton returns exactly the keys within the distance
SeqSet(s) == { s[i] : i \in 1..Len(s) }
LevS == /\ IsEvent("LevS")
        /\ SeqSet(E.got) = { k \in SeqSet(E.keys) : Dist(E.q, k) <= E.d }
        /\ Len(E.got) = Cardinality(SeqSet(E.got))
        /\ UNCHANGED okAt

\* state limits: TooManyStates(limit) or an automaton with at most `limit`
\* states; success is monotone in the limit
LevB == /\ IsEvent("LevB")
        /\ CASE E.res = "toomany" -> /\ E.payload = E.limit
                                     /\ (<<E.q, E.d>> \in DOMAIN okAt => E.limit < okAt[<<E.q, E.d>>])
                                     /\ UNCHANGED okAt
             [] E.res = "ok" -> /\ E.reach <= E.limit
                                /\ okAt' = IF <<E.q, E.d>> \in DOMAIN okAt /\ okAt[<<E.q, E.d>>] <= E.limit THEN okAt
                                           ELSE [x \in (DOMAIN okAt) \cup {<<E.q, E.d>>} |-> IF x = <<E.q, E.d>> THEN E.limit ELSE okAt[x]]

Next == LevM \/ LevS \/ LevB
Spec == Init /\ [][Next]_vars
Accepted ==
    LET dd == TLCGet("stats").diameter IN
    IF dd - 1 = Len(Rec) THEN PrintT(<<"TRACE-ACCEPTED", Len(Rec)>>)
    ELSE PrintT(<<"TRACE-REJECTED", dd>>) /\ FALSE
=============================================================================
