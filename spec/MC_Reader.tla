------------------------------ MODULE MC_Reader ------------------------------
EXTENDS FstReader
SymDef == {1,2}
UniDef == {<<>>, <<1>>, <<2>>, <<1,1>>, <<1,2>>, <<2,1>>, <<2,2>>}
BKDef == {<<>>, <<1>>, <<1,2>>, <<2>>, <<1,2,2>>, <<2,2,2>>}
\* all DFAs with <= 2 states over {1,2}; every sound can-assignment
States == {1,2}
Deltas == [States -> [SymDef -> States]]
Reach(d, s) == LET RECURSIVE F(_) F(S) == LET T == S \cup { d[x][b] : x \in S, b \in SymDef } IN IF T = S THEN S ELSE F(T) IN F({s})
NoEof == [s \in States |-> 0]
AutDef == UNION { { [start |-> 1, delta |-> d, match |-> m, can |-> c, eof |-> NoEof] :
                     c \in { C \in SUBSET States : \A s \in States : (Reach(d,s) \cap m # {}) => s \in C } }
                  : d \in Deltas, m \in SUBSET States }
AlwaysOnly == { [start |-> 1, delta |-> [s \in {1} |-> [b \in SymDef |-> 1]], match |-> {1}, can |-> {1}, eof |-> [s \in {1} |-> 0]] }
\* automata with an end-of-key hook (beyond C04, which excludes it): every hook table that is
\* not all-None, every sound can-assignment with respect to acceptance at the end of a key
EofAccept(m, e) == { s \in States : IF e[s] # 0 THEN e[s] \in m ELSE s \in m }
AutEof == UNION { { [start |-> 1, delta |-> d, match |-> m, can |-> c, eof |-> e] :
                     c \in { C \in SUBSET States : \A s \in States : (Reach(d,s) \cap EofAccept(m, e) # {}) => s \in C } }
                  : d \in Deltas, m \in SUBSET States, e \in [States -> 0..2] \ {NoEof} }
BKTiny == {<<>>, <<1, 2>>}
BKSmall == {<<>>, <<1>>, <<1, 2>>, <<2, 2, 2>>}
=============================================================================
