------------------------------ MODULE MC_Reader ------------------------------
EXTENDS FstReader
SymDef == {1,2}
UniDef == {<<>>, <<1>>, <<2>>, <<1,1>>, <<1,2>>, <<2,1>>, <<2,2>>}
BKDef == {<<>>, <<1>>, <<1,2>>, <<2>>, <<1,2,2>>, <<2,2,2>>}
\* all DFAs with <= 2 states over {1,2}; every sound can-assignment
States == {1,2}
Deltas == [States -> [SymDef -> States]]
Reach(d, s) == LET RECURSIVE F(_) F(S) == LET T == S \cup { d[x][b] : x \in S, b \in SymDef } IN IF T = S THEN S ELSE F(T) IN F({s})
AutDef == UNION { { [start |-> 1, delta |-> d, match |-> m, can |-> c] :
                     c \in { C \in SUBSET States : \A s \in States : (Reach(d,s) \cap m # {}) => s \in C } }
                  : d \in Deltas, m \in SUBSET States }
AlwaysOnly == { [start |-> 1, delta |-> [s \in {1} |-> [b \in SymDef |-> 1]], match |-> {1}, can |-> {1}] }
BKSmall == {<<>>, <<1>>, <<1, 2>>, <<2, 2, 2>>}
=============================================================================
