SPECIFICATION Spec
CONSTANT AsFound = FALSE
POSTCONDITION Accepted
CHECK_DEADLOCK FALSE
