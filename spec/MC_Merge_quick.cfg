SPECIFICATION Spec
CONSTANTS
  Configs <- ConfigsQuick
  AsFound = FALSE
INVARIANTS NoOverwrite FinalOK
PROPERTY Termination
CHECK_DEADLOCK FALSE
