SPECIFICATION Spec
CONSTANTS
  Keys <- KeysBig
  Vals <- ValsSet
  MaxCalls = 6
  Cells = 99
  SetMode = TRUE
INVARIANTS Refines AccSorted NoDupUnlessEvicted TrieBound Backward Retained MonotoneOutputs Minimal 
VIEW View
CHECK_DEADLOCK FALSE
