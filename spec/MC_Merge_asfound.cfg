SPECIFICATION Spec
CONSTANTS
  Configs <- ConfigsNeg
  AsFound = TRUE
INVARIANTS NoOverwrite FinalOK
PROPERTY Termination
CHECK_DEADLOCK FALSE
