------------------------------ MODULE MC_Merge ------------------------------
EXTENDS Merge
In1 == << <<1, 1>>, <<1, 2>>, <<2, 1>>, <<1, 1>> >>        \* repeated keys inside and across batches, a repeated row
In2 == << <<2, 2>>, <<1, 1>>, <<3, 2>>, <<4, 1>> >>        \* no repeated keys
In3 == << <<1, 2>>, <<1, 1>>, <<1, 2>>, <<2, 2>>, <<1, 1>> >>
ConfigsQuick == { [input |-> i, bs |-> b, fd |-> f, t |-> t, mode |-> m] :
                    i \in {In1, In2, <<>>, << <<3, 3>> >>}, b \in {1, 2, 3}, f \in {2, 3}, t \in {1, 2, 3}, m \in {"sum", "max", "min"} }
ConfigsThorough == { [input |-> i, bs |-> b, fd |-> f, t |-> t, mode |-> m] :
                    i \in {In1, In2, In3, <<>>, << <<3, 3>> >>}, b \in {1, 2, 3, 5}, f \in {2, 3, 4}, t \in {1, 2, 3, 4}, m \in {"sum", "max", "min"} }
ConfigsNeg == { [input |-> In1, bs |-> b, fd |-> 2, t |-> 2, mode |-> m] : b \in {1, 2}, m \in {"sum", "min"} }
=============================================================================
