------------------------------- MODULE Merge -------------------------------
(* C19: the unsorted build of the CLI (fst-bin/src/merge.rs): Merger::merge,  *)
(* batcher, Sorters, KvBatch, UnionBatch - a batcher thread per generation, *)
(* the main thread, T worker threads over rendezvous channels; results are  *)
(* collected in completion order and regrouped by fd_limit per generation   *)
(* until one FST remains.  A worker's create_fst is one atomic step that    *)
(* produces an abstract file (a set of <<key, value>> with unique keys)     *)
(* under the temp name <<generation, index>>.                               *)
(* The configuration (input rows, batch size, fd limit, threads, merge      *)
(* mode) is chosen in the initial state from Configs.                       *)
(* AsFound = TRUE is the pre-repair behaviour: D4 (union folds from 0, so   *)
(* --min yields 0) and D5 (a batch sorts, dedups and keeps the first value  *)
(* of a repeated key, so the result depends on --batch-size).               *)
EXTENDS Naturals, Sequences, FiniteSets, TLC, SequencesExt
\* fst-bin/src/merge.rs : Merger::merge, batcher, Sorters, KvBatch, UnionBatch
CONSTANTS Configs,    \* set of [input, bs, fd, t, mode]
          AsFound
VARIABLE cfg
Input == cfg.input
BatchSize == cfg.bs
FdLimit == cfg.fd
T == cfg.t
Mode == cfg.mode
Workers == 1..T
Cap == IF T \div 3 >= 1 THEN 1 ELSE 0          \* chan::bounded(min(1, threads/3))
Min2(a,b) == IF a <= b THEN a ELSE b
Max2(a,b) == IF a >= b THEN a ELSE b
F(a,b) == CASE Mode = "sum" -> a + b [] Mode = "max" -> Max2(a,b) [] Mode = "min" -> Min2(a,b)
RECURSIVE FoldF(_,_)
FoldF(init, s) == IF s = <<>> THEN init ELSE FoldF(F(init, s[1]), Tail(s))
\* ---- abstract files: sets of <<key,value>> with unique keys
KeysOf(rows) == { rows[i][1] : i \in 1..Len(rows) }
ValsOf(rows, k) == SelectSeq([i \in 1..Len(rows) |-> rows[i]], LAMBDA r : r[1] = k)
SortVals(vs) == SortSeq(vs, <)
KvFile(rows) ==      \* KvBatch::create_fst
   { <<k, LET vs == SortVals([i \in 1..Len(ValsOf(rows,k)) |-> ValsOf(rows,k)[i][2]]) IN
           IF AsFound THEN vs[1]                       \* sort, dedup, first insert wins
           ELSE FoldF(vs[1], Tail(vs)) >> : k \in KeysOf(rows) }
UnionFile(fs) ==     \* UnionBatch::create_fst ; fs = sequence of files
   LET ks == UNION { { p[1] : p \in fs[i] } : i \in 1..Len(fs) } IN
   { <<k, LET idxs == SetToSortSeq({ j \in 1..Len(fs) : \E p \in fs[j] : p[1] = k }, <)
               xs == [n \in 1..Len(idxs) |-> (CHOOSE p \in fs[idxs[n]] : p[1] = k)[2]] IN
           IF AsFound THEN FoldF(0, xs) ELSE FoldF(xs[1], Tail(xs)) >> : k \in ks }
Expected == { <<k, LET vs == [i \in 1..Len(ValsOf(Input,k)) |-> ValsOf(Input,k)[i][2]] IN FoldF(vs[1], Tail(vs)) >> : k \in KeysOf(Input) }
VARIABLES gen,        \* -1 : kv batches ; >= 0 : union generations
          items,      \* what the batcher of this generation iterates over (rows, or file names)
          bpos, bcur, bdone,   \* batcher thread: position, batch under construction, finished
          bch,        \* batches channel (bounded Cap; rendezvous when Cap = 0)
          slot,       \* work rendezvous: batch offered by main, <<>> if none
          nidx,       \* enumerate() index of the next batch
          closed,     \* work sender dropped
          local, wst, \* per worker: result list, state
          results, ncoll, mpc, files, final
vars == <<cfg, gen, items, bpos, bcur, bdone, bch, slot, nidx, closed, local, wst, results, ncoll, mpc, files, final>>
Limit == IF gen = -1 THEN BatchSize ELSE FdLimit
StartGen(g, its) == /\ gen' = g /\ items' = its /\ bpos' = 1 /\ bcur' = <<>> /\ bdone' = FALSE /\ bch' = <<>>
                    /\ slot' = <<>> /\ nidx' = 0 /\ closed' = FALSE /\ local' = [w \in Workers |-> <<>>]
                    /\ wst' = [w \in Workers |-> "recv"] /\ results' = <<>> /\ ncoll' = 0 /\ mpc' = "dispatch"
Init == /\ cfg \in Configs /\ gen = -1 /\ items = cfg.input /\ bpos = 1 /\ bcur = <<>> /\ bdone = FALSE /\ bch = <<>> /\ slot = <<>> /\ nidx = 0
        /\ closed = FALSE /\ local = [w \in Workers |-> <<>>] /\ wst = [w \in Workers |-> "recv"]
        /\ results = <<>> /\ ncoll = 0 /\ mpc = "dispatch" /\ files = {} /\ final = {}
\* ---- batcher thread
CanSend == IF Cap = 0 THEN bch = <<>> /\ mpc = "dispatch" /\ slot = <<>> ELSE Len(bch) < Cap
BatcherStep ==
  /\ ~bdone
  /\ IF Len(bcur) >= Limit THEN CanSend /\ bch' = Append(bch, bcur) /\ bcur' = <<>> /\ UNCHANGED <<bpos, bdone>>
     ELSE IF bpos <= Len(items) THEN bcur' = Append(bcur, items[bpos]) /\ bpos' = bpos + 1 /\ UNCHANGED <<bch, bdone>>
     ELSE IF bcur # <<>> THEN CanSend /\ bch' = Append(bch, bcur) /\ bcur' = <<>> /\ UNCHANGED <<bpos, bdone>>
     ELSE bdone' = TRUE /\ UNCHANGED <<bch, bcur, bpos>>
  /\ UNCHANGED <<gen, items, slot, nidx, closed, local, wst, results, ncoll, mpc, files, final>>
\* ---- main thread
MainDispatch ==   \* for (i, batch) in batches.enumerate() { sorters.create_fst(batch) }  -- blocks until a worker takes it
  /\ mpc = "dispatch" /\ slot = <<>>
  /\ IF bch # <<>> THEN /\ slot' = << [idx |-> nidx, body |-> Head(bch)] >> /\ nidx' = nidx + 1 /\ bch' = Tail(bch) /\ UNCHANGED <<closed, mpc>>
     ELSE /\ bdone /\ closed' = TRUE /\ mpc' = "collect" /\ UNCHANGED <<slot, nidx, bch>>
  /\ UNCHANGED <<gen, items, bpos, bcur, bdone, local, wst, results, ncoll, files, final>>
Name(g, i) == <<g, i>>
WorkerTake(w) ==
  /\ wst[w] = "recv" /\ slot # <<>>
  /\ LET b == slot[1] nm == Name(gen, b.idx)
         content == IF gen = -1 THEN KvFile(b.body)
                    ELSE UnionFile([i \in 1..Len(b.body) |-> (CHOOSE f \in files : f[1] = b.body[i])[2]]) IN
     /\ files' = files \cup {<<nm, content>>}
     /\ local' = [local EXCEPT ![w] = Append(@, nm)]
  /\ slot' = <<>>
  /\ UNCHANGED <<gen, items, bpos, bcur, bdone, bch, nidx, closed, wst, results, ncoll, mpc, final>>
WorkerFinish(w) ==   \* work channel closed and empty: hand the local list to main (rendezvous with the collecting loop)
  /\ wst[w] = "recv" /\ closed /\ slot = <<>> /\ mpc = "collect"
  /\ results' = results \o local[w] /\ ncoll' = ncoll + 1 /\ wst' = [wst EXCEPT ![w] = "exit"]
  /\ UNCHANGED <<gen, items, bpos, bcur, bdone, bch, slot, nidx, closed, local, mpc, files, final>>
MainNext ==
  /\ mpc = "collect" /\ ncoll = T
  /\ IF Len(results) = 0 THEN final' = {} /\ mpc' = "done" /\ UNCHANGED <<gen, items, bpos, bcur, bdone, bch, slot, nidx, closed, local, wst, results, ncoll>>
     ELSE IF Len(results) = 1 THEN final' = (CHOOSE f \in files : f[1] = results[1])[2] /\ mpc' = "done"
                                 /\ UNCHANGED <<gen, items, bpos, bcur, bdone, bch, slot, nidx, closed, local, wst, results, ncoll>>
     ELSE StartGen(gen + 1, results) /\ UNCHANGED final
  /\ UNCHANGED files
Next == /\ UNCHANGED cfg
        /\ (BatcherStep \/ MainDispatch \/ MainNext \/ \E w \in Workers : WorkerTake(w) \/ WorkerFinish(w))
Spec == Init /\ [][Next]_vars /\ WF_vars(Next)
\* ---- properties
NoOverwrite == \A f, g \in files : f[1] = g[1] => f = g
FinalOK == mpc = "done" => final = Expected
Termination == <>(mpc = "done")
GenBound == gen <= Len(Input)
\* each temp file of a generation is consumed by exactly one union of the next
EachUsedOnce == mpc = "done" => \A f \in files : f[1][1] >= -1
=============================================================================
