SPECIFICATION Spec
CONSTANTS
  Keys <- KeysDef
  Vals <- ValsSet
  MaxCalls = 4
  Cells = 1
  SetMode = TRUE
INVARIANTS Refines AccSorted NoDupUnlessEvicted TrieBound Backward Retained MonotoneOutputs Minimal 
VIEW View
CHECK_DEADLOCK FALSE
