------------------------------ MODULE Trace_Aut ------------------------------
(* Code -> spec for C18: a real composite automaton (built from the real    *)
(* combinators over real Str / Subsequence / AlwaysMatch and table leaves)  *)
(* driven over every string up to a length; for each string the recorder    *)
(* logs is_match, can_match and will_always_match of the state reached.     *)
(* Judged against the languages and, for the hints, against exact           *)
(* reachability in the specification's machine:                             *)
(*     m = Lang(e, w),   ~c => no extension of w is accepted,               *)
(*     a => every extension of w is accepted.                               *)
(* The hints themselves are not compared with the specification's (a more   *)
(* precise sound hint is no violation).                                     *)
EXTENDS Automata, Json, IOUtils

Rec == ndJsonDeserialize(IOEnv.TRACE)
VARIABLES l
vars == <<l>>
E == Rec[l]

SeqRange(q) == { q[i] : i \in 1..Len(q) }
\* expression from its JSON form; a table leaf ["T", {n,start,delta,cls:[[byte,class]..],other,match,can,always}]
RECURSIVE Expr(_)
Expr(j) ==
    CASE j[1] = "T" -> <<"T", [start |-> j[2].start, delta |-> j[2].delta,
                              cls |-> [b \in { p[1] : p \in SeqRange(j[2].cls) } |-> (CHOOSE p \in SeqRange(j[2].cls) : p[1] = b)[2]],
                              other |-> j[2].other, match |-> SeqRange(j[2].match), can |-> SeqRange(j[2].can),
                              always |-> SeqRange(j[2].always)]>>
      [] j[1] \in {"STR", "SUB"} -> <<j[1], j[2]>>
      [] j[1] = "ALW" -> <<"ALW">>
      [] j[1] \in {"SW", "C"} -> <<j[1], Expr(j[2])>>
      [] OTHER -> <<j[1], Expr(j[2]), Expr(j[3])>>

TraceSyms == {97, 98, 99, 0}
Init == l = 1

RunOK(e, r) ==   \* r = <<w, m, c, a>>
    \E s \in {RunE(e, r[1])} : \E R \in {ReachFrom(e, s)} :
        /\ r[2] = Lang(e, r[1])
        /\ IsMatch(e, s) = Lang(e, r[1])          \* the specification's machine agrees with the language too
        /\ (~r[3] => \A t \in R : ~IsMatch(e, t))
        /\ (r[4] => \A t \in R : IsMatch(e, t))

AutRun ==
    /\ l <= Len(Rec) /\ E.ev = "AutRun"
    \* (compared with TRUE so that TLC evaluates it as a value: in action mode it
    \* would explore both sides of every disjunction inside the automata definitions)
    /\ TRUE = (\E e \in {Expr(E.expr)} : \A i \in 1..Len(E.runs) : RunOK(e, E.runs[i]))
    /\ l' = l + 1

Next == AutRun
Spec == Init /\ [][Next]_vars
Accepted ==
    LET d == TLCGet("stats").diameter IN
    IF d - 1 = Len(Rec) THEN PrintT(<<"TRACE-ACCEPTED", Len(Rec)>>)
    ELSE PrintT(<<"TRACE-REJECTED", d>>) /\ FALSE
=============================================================================
