SPECIFICATION TSpec
CONSTANTS
    Keys = {}
    Vals = {}
    MaxCalls = 1000000
    Cells = 99
    SetMode = FALSE
CONSTRAINT Track
POSTCONDITION Accepted
CHECK_DEADLOCK FALSE
