------------------------------ MODULE MC_Sink ------------------------------
(* Every behaviour of an arbitrary sink against a producer issuing a fixed  *)
(* list of builder calls (each a list of write_all buffers).                *)
EXTENDS FstSink, SequencesExt

CONSTANTS MaxIntr, Faulty

\* three builder calls: header (2 buffers), an insert (3 buffers), finish (footer 8+8, then 4)
Calls == << << <<3, 0, 0, 0>>, <<9, 9>> >>, << <<1>>, <<7, 8, 9>>, <<2>> >>, << <<5, 5, 5, 5>>, <<6, 6>> >> >>

VARIABLES ci, bi, res, status
vars == <<pending, sink, cnt, summed, failed, intr, flushed, ci, bi, res, status>>

Init == SinkInit /\ ci = 1 /\ bi = 1 /\ res = <<>> /\ status = "open"

Buf == IF pending # <<>> THEN pending ELSE Calls[ci][bi]

\* after a write: the builder moves on when the buffer is complete
Moved ==
    IF pending' # <<>> \/ failed' THEN UNCHANGED <<ci, bi, res, status>>
    ELSE IF bi < Len(Calls[ci]) THEN bi' = bi + 1 /\ UNCHANGED <<ci, res, status>>
    ELSE /\ res' = Append(res, "ok") /\ bi' = 1
         /\ IF ci < Len(Calls) THEN ci' = ci + 1 /\ UNCHANGED status ELSE ci' = ci /\ status' = "flushing"

Accept == status = "open" /\ \E n \in 1..Len(Buf) : WriteAccept(Buf, n) /\ Moved
Interrupt == status = "open" /\ intr < MaxIntr /\ WriteInterrupted(Buf) /\ UNCHANGED <<ci, bi, res, status>>
Fail == Faulty /\ status = "open" /\ WriteFail(Buf) /\ res' = Append(res, CallResult') /\ status' = "failed" /\ UNCHANGED <<ci, bi>>
DoFlushOk == status = "flushing" /\ FlushOk /\ status' = "finished" /\ UNCHANGED <<ci, bi, res>>
DoFlushFail == Faulty /\ status = "flushing" /\ FlushFail /\ res' = [res EXCEPT ![Len(res)] = "io"] /\ status' = "failed" /\ UNCHANGED <<ci, bi>>
Next == Accept \/ Interrupt \/ Fail \/ DoFlushOk \/ DoFlushFail
Spec == Init /\ [][Next]_vars

Logical == FlattenSeq([c \in 1..Len(Calls) |-> FlattenSeq(Calls[c])])
SinkExact == status = "finished" => sink = Logical /\ summed = Logical /\ flushed /\ \A i \in 1..Len(res) : res[i] = "ok"
NoSilentSuccess ==
    /\ (status = "failed" => res[Len(res)] = "io")
    /\ (status = "finished" => sink = Logical /\ flushed)
PrefixAlways == sink = SubSeq(Logical, 1, Len(sink))
=============================================================================
