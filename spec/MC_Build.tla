------------------------------ MODULE MC_Build ------------------------------
(* Bounded instances of FstBuilder: every call history of the scope, every  *)
(* resolution of the cache nondeterminism.                                  *)
EXTENDS FstBuilder, Json

\* one common and one uncommon input byte, keys of length <= 2 (7 keys)
KeysDef == StringsUpTo({97, 255}, 2)
\* three values spanning a pack-size boundary
ValsDef == {0, 1, 256}
ValsSet == {0}
\* thorough: three symbols (13 keys)
KeysBig == StringsUpTo({97, 98, 255}, 2)

\* hide the history variables: they do not influence the algorithm
View == <<stack, emitted, cache, evict, last, acc, pc, tgt, pend, sfx, sout>>

\* spec -> code: one line per complete behaviour (run without the VIEW)
Emit == pc = "done" => PrintT(<<"REPLAY", ToJson([set |-> SetMode, calls |-> hist])>>)
=============================================================================
