------------------------------ MODULE Trace_Cli ------------------------------
(* Beyond the listed properties: the remaining commands of the `fst` CLI as  *)
(* thin actions over layer A.  The recorder runs the real binary and logs    *)
(* its exit status and output; TLC derives what it must have printed.        *)
(*   CliSorted  fst set/map --sorted : the builder contract on the rows      *)
(*   CliRange   fst range -s S -e E  : RangeSeq with ge S, le E              *)
(*   CliUnion   fst union            : keys of any input, as a set           *)
(*   CliVerify  fst verify           : exit 0 iff the file was not altered   *)
(*   CliGrep    fst grep RE          : keys accepted by the (tabulated) DFA  *)
(*   CliFuzzy   fst fuzzy Q -d D     : keys within edit distance (or having  *)
(*                                     a prefix within it, with --prefix)    *)
(*   CliDupes   fst dupes            : unique <= total <= prefix trie        *)
(*   CliForce   set/map/union        : a taken output path needs --force     *)
(* Rejections here are reported as EXTRA-FINDING, never as a VIOLATION of a  *)
(* listed property.                                                          *)
EXTENDS FstAbs, Json, IOUtils

Rec == ndJsonDeserialize(IOEnv.TRACE)
VARIABLES l
vars == <<l>>
E == Rec[l]
IsEvent(e) == l <= Len(Rec) /\ Rec[l].ev = e /\ l' = l + 1
Init == l = 1

Keys(items) == [i \in 1..Len(items) |-> items[i][1]]
SeqSet(s) == { s[i] : i \in 1..Len(s) }

\* the sorted build accepts exactly a row sequence the builder contract accepts
RECURSIVE RowsOK(_, _, _)
RowsOK(call, rows, i) ==
    IF i > Len(rows) THEN TRUE
    ELSE IF InsertResult(call, IF i = 1 THEN None ELSE Some(rows[i - 1][1]), rows[i][1]) # OkRes THEN FALSE
    ELSE RowsOK(call, rows, i + 1)
RECURSIVE DedupKeys(_, _)
DedupKeys(rows, i) == IF i > Len(rows) THEN <<>>
                      ELSE IF i > 1 /\ rows[i][1] = rows[i - 1][1] THEN DedupKeys(rows, i + 1)
                      ELSE <<rows[i]>> \o DedupKeys(rows, i + 1)
CliSorted ==
    /\ IsEvent("CliSorted")
    /\ TRUE = (\E call \in {IF E.kind = "set" THEN "add" ELSE "insert"} :
                 IF RowsOK(call, E.rows, 1) THEN E.exit = 0 /\ E.out = DedupKeys(E.rows, 1)
                 ELSE E.exit # 0)

Bnd(kind, o) == IF o = None THEN NoBound ELSE <<kind, o[1]>>
CliRange ==
    /\ IsEvent("CliRange")
    /\ TRUE = IsContent(E.items)
    /\ E.exit = 0
    /\ TRUE = (E.out = RangeSeq(E.items, Bnd("ge", E.s), Bnd("le", E.e), None))

CliUnion ==
    /\ IsEvent("CliUnion")
    /\ E.exit = 0
    /\ TRUE = IsContent(E.out)
    /\ SeqSet(Keys(E.out)) = UNION { SeqSet(Keys(E.ins[j])) : j \in 1..Len(E.ins) }

CliVerify ==
    /\ IsEvent("CliVerify")
    /\ (E.exit = 0) = ~E.altered

TabRec(e) == [n |-> e.n, start |-> e.start, cls |-> e.cls, delta |-> e.delta,
              match |-> SeqSet(e.match), can |-> SeqSet(e.can), always |-> SeqSet(e.always), eof |-> [i \in 1..e.n |-> 0]]
CliGrep ==
    /\ IsEvent("CliGrep")
    /\ E.exit = 0
    /\ TRUE = (\E A \in {TabRec(E.aut)} :
                 E.out = RangeSeq(E.items, Bnd("ge", E.s), Bnd("le", E.e), Some(A)))

Min2(a, b) == IF a <= b THEN a ELSE b
RECURSIVE ED(_, _)
ED(a, b) == IF a = <<>> THEN Len(b) ELSE IF b = <<>> THEN Len(a) ELSE
    Min2(Min2(ED(Tail(a), b) + 1, ED(a, Tail(b)) + 1), ED(Tail(a), Tail(b)) + (IF a[1] = b[1] THEN 0 ELSE 1))
Within(q, d, k, prefix) ==
    IF prefix THEN \E n \in 0..Len(k) : ED(q, SubSeq(k, 1, n)) <= d ELSE ED(q, k) <= d
\* keys are logged as sequences of abstract characters, in the order the CLI printed them
CliFuzzy ==
    /\ IsEvent("CliFuzzy")
    /\ E.exit = 0
    /\ TRUE = (SeqSet(E.out) = { k \in SeqSet(E.keys) : Within(E.q, E.d, k, E.prefix) })
    /\ Len(E.out) = Cardinality(SeqSet(E.out))

CliDupes ==
    /\ IsEvent("CliDupes")
    /\ E.exit = 0
    /\ E.unique <= E.total
    /\ E.total <= Cardinality(UNION { PrefixesOf(E.items[i][1]) : i \in 1..Len(E.items) } \cup {<<>>}) + 1

\* an output path that is already taken is refused and left alone unless --force is given
CliForce ==
    /\ IsEvent("CliForce")
    /\ IF E.existing /\ ~E.force
       THEN E.exit # 0 /\ E.untouched
       ELSE E.exit = 0 /\ ~E.untouched /\ E.out = E.rows

Next == CliSorted \/ CliRange \/ CliUnion \/ CliVerify \/ CliGrep \/ CliFuzzy \/ CliDupes \/ CliForce
Spec == Init /\ [][Next]_vars
Accepted ==
    LET d == TLCGet("stats").diameter IN
    IF d - 1 = Len(Rec) THEN PrintT(<<"TRACE-ACCEPTED", Len(Rec)>>)
    ELSE PrintT(<<"TRACE-REJECTED", d>>) /\ FALSE
=============================================================================
