----------------------------- MODULE Trace_File -----------------------------
(* Code -> spec at the level of bytes: validates files produced by the real *)
(* builders (C09), what the real reader says about arbitrary byte strings   *)
(* (C10, C20) and checksums (C08) against the format specification alone.   *)
(*                                                                          *)
(*  File      a builder's output with the content it was built from: header,*)
(*            footer, checksum; then one ChainStep per node, back to front, *)
(*            (every node parses, extents tile the body, targets point to   *)
(*            earlier nodes); FileEnd: the map read by the format alone is   *)
(*            the inserted map.                                             *)
(*  Raw       an arbitrary byte string with what Fst::new, the accessors and *)
(*            verify() returned.                                            *)
(*  Node      one node encoded by the real encoder at an arbitrary address.  *)
(*  Sum       the crate's checksum of arbitrary data (through verify()).     *)
EXTENDS FstFormat, Json, IOUtils

Rec == ndJsonDeserialize(IOEnv.TRACE)

VARIABLES l, phase, cursor, pending, nodes,
          crcT      \* the CRC table (constant; a variable because TLC would recompute a constant)
vars == <<l, phase, cursor, pending, nodes, crcT>>

E == Rec[l]
Init == l = 1 /\ phase = "idle" /\ cursor = 0 /\ pending = {} /\ nodes = 0 /\ crcT = MakeCrcTable

OkRes == [err |-> "none"]

---------------------------------------------------------------------------
FileBegin ==
    /\ phase = "idle" /\ l <= Len(Rec) /\ E.ev = "File"
    /\ LET b == E.bytes
           end == Len(b) - 4
           root == RootAddr(b, 3) IN
       /\ Len(b) >= 36
       /\ VersionOf(b) = <<3>>
       /\ TypeOf(b) = E.ty
       /\ NumKeys(b, 3) = UFromNat(Len(E.items))
       /\ StoredSum(b) = ExpectedSum(crcT, b)
       /\ root >= 0
       /\ IF root = 0
          THEN /\ end - 16 = 16                    \* no nodes at all
               /\ phase' = "end" /\ cursor' = 0
          ELSE /\ root = end - 17                  \* the root is the last node
               /\ phase' = "chain" /\ cursor' = root
    /\ pending' = {} /\ nodes' = 0
    /\ UNCHANGED <<l, crcT>>

\* one node of the back-to-front chain
ChainStep ==
    /\ phase = "chain"
    \* (bound variables over singleton sets are evaluated once; LET is lazy and
    \* would re-evaluate the decoder at every use)
    /\ \E b \in {E.bytes} : \E n \in {DecodeNode(b, cursor, 3)} :
       /\ NodeOK(b, cursor, 3, n)
       /\ n.start >= 16
       /\ pending' = (pending \ {cursor}) \cup { n.trans[i].addr : i \in 1..Len(n.trans) }
       /\ IF n.start = 16 THEN phase' = "end" /\ cursor' = 0
          ELSE phase' = "chain" /\ cursor' = n.start - 1
    /\ nodes' = nodes + 1
    /\ UNCHANGED <<l, crcT>>

FileEnd ==
    /\ phase = "end"
    /\ pending \subseteq {0}                 \* every target was a node of the chain
    /\ (E.nodes = -1 \/ nodes = E.nodes)      \* cross-check with the number of nodes the builder emitted
    /\ Lang(E.bytes, 3) = { <<E.items[i][1], E.items[i][2]>> : i \in 1..Len(E.items) }
    /\ phase' = "idle" /\ cursor' = 0 /\ pending' = {} /\ nodes' = 0
    /\ l' = l + 1 /\ UNCHANGED crcT

---------------------------------------------------------------------------
(* what the reader says about arbitrary bytes *)
ResClass(r) == IF r = OkRes THEN "Ok" ELSE r.err

VerifyWant(b) ==
    LET v == VersionNat(VersionOf(b)) IN
    IF v < 3 THEN [err |-> "ChecksumMissing"]
    ELSE IF StoredSum(b) = ExpectedSum(crcT, b) THEN OkRes
    ELSE [err |-> "ChecksumMismatch", expected |-> UTrim(StoredSum(b)), got |-> UTrim(ExpectedSum(crcT, b))]

Raw ==
    /\ phase = "idle" /\ l <= Len(Rec) /\ E.ev = "Raw"
    /\ LET b == E.bytes IN
       /\ ResClass(E.open) \in OpenClasses(b)
       \* what a builder produced opens and passes verify() (C08, first sentence)
       /\ (E.built => E.open = OkRes /\ E.verify = OkRes)
       /\ (E.open.err = "Format" => E.open.size = Len(b))
       /\ (E.open.err = "Version" => E.open.got = VersionOf(b) /\ E.open.expected = <<3>>)
       /\ (E.open = OkRes =>
             LET v == VersionNat(VersionOf(b)) IN
             /\ E.size = Len(b)
             /\ E.ty = TypeOf(b)
             /\ E.len = NumKeys(b, v)
             /\ E.empty = (NumKeys(b, v) = UZero)
             /\ E.as_bytes = Len(b) /\ E.to_vec = Len(b)
             /\ E.verify = VerifyWant(b))
    /\ l' = l + 1 /\ UNCHANGED <<phase, cursor, pending, nodes, crcT>>

\* the crate's own CRC of arbitrary data, observed as the `got` of a mismatch
Sum ==
    /\ phase = "idle" /\ l <= Len(Rec) /\ E.ev = "Sum"
    /\ E.got = UTrim(MaskedChecksum(crcT, E.data))
    /\ l' = l + 1 /\ UNCHANGED <<phase, cursor, pending, nodes, crcT>>

\* one node through the real encoder (hook H3): the bytes must decode, by the
\* format alone, to the node
NodeEv ==
    /\ phase = "idle" /\ l <= Len(Rec) /\ E.ev = "Node"
    \* deltas are relative, so the node may be decoded at a small offset
    /\ \E b \in {[i \in 1..E.pad |-> 0] \o E.bytes} : \E n \in {DecodeRaw(b, Len(b) - 1, 3)} :
       LET addr == Len(b) - 1
           want == [i \in 1..Len(E.trans) |-> [inp |-> E.trans[i][1], out |-> E.trans[i][2], delta |-> E.trans[i][3]]] IN
       /\ n.ok
       /\ n.start = E.pad
       /\ n.final = E.final /\ n.fout = E.fout
       /\ n.trans = want
       /\ (n.form = "AT" => \A i \in 1..(Len(n.trans) - 1) : n.trans[i].inp < n.trans[i + 1].inp)
       /\ IndexOK(b, addr, 3, n)
    /\ l' = l + 1 /\ UNCHANGED <<phase, cursor, pending, nodes, crcT>>

\* the reader's node-level view (raw::Fst::root / node and the Node accessors)
\* of a well-formed file of any version: every node reachable from the root
\* must be presented exactly as the format decodes it
NodeViewOK(b, v, nd) ==
    \E n \in {DecodeNode(b, nd.addr, v)} :
       /\ NodeOK(b, nd.addr, v, n)
       /\ nd.final = n.final /\ nd.fout = n.fout
       /\ nd.len = Len(n.trans) /\ nd.empty = (Len(n.trans) = 0)
       /\ nd.trans = [i \in 1..Len(n.trans) |-> <<n.trans[i].inp, n.trans[i].out, n.trans[i].addr>>]
       \* find_input: exactly the inputs present, each at its position
       /\ { nd.find[j] : j \in 1..Len(nd.find) } = { <<n.trans[i].inp, i - 1>> : i \in 1..Len(n.trans) }
       /\ Len(nd.find) = Len(n.trans)
       /\ nd.state = n.form
       /\ nd.slice = (IF nd.addr = 0 THEN <<>> ELSE SubSeq(b, n.start + 1, nd.addr + 1))

View ==
    /\ phase = "idle" /\ l <= Len(Rec) /\ E.ev = "View"
    /\ \E b \in {E.bytes} : \E v \in {VersionNat(VersionOf(b))} :
       LET A == { E.nodes[j].addr : j \in 1..Len(E.nodes) } IN
       /\ "Ok" \in OpenClasses(b)
       /\ E.root = RootAddr(b, v)
       /\ UFromNat(E.len) = NumKeys(b, v) /\ E.size = Len(b) /\ E.ty = TypeOf(b)
       /\ E.root \in A
       /\ Cardinality(A) = Len(E.nodes)
       /\ TRUE = (\A j \in 1..Len(E.nodes) :
                     /\ NodeViewOK(b, v, E.nodes[j])
                     /\ \A i \in 1..Len(E.nodes[j].trans) : E.nodes[j].trans[i][3] \in A)
    /\ l' = l + 1 /\ UNCHANGED <<phase, cursor, pending, nodes, crcT>>

Next == FileBegin \/ ChainStep \/ FileEnd \/ Raw \/ Sum \/ NodeEv \/ View
Spec == Init /\ [][Next]_vars

\* acceptance: l ran past the last event.  The diameter counts chain steps too,
\* so the verdict is taken from a register updated with the highest l reached.
Track == TLCSet(1, l)
Accepted ==
    LET d == TLCGet(1) IN
    IF d = Len(Rec) + 1 THEN PrintT(<<"TRACE-ACCEPTED", Len(Rec)>>)
    ELSE PrintT(<<"TRACE-REJECTED", d>>) /\ FALSE
=============================================================================
