SPECIFICATION Spec
CONSTANTS
  Configs <- ConfigsThorough
  AsFound = FALSE
INVARIANTS NoOverwrite FinalOK
PROPERTY Termination
CHECK_DEADLOCK FALSE
