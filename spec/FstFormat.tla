----------------------------- MODULE FstFormat -----------------------------
(* The on-disk format, written from the format description - independent of *)
(* the crate's reader and writer.  Pure operators, no state.                *)
(*                                                                          *)
(*   file  = [u64 version][u64 type][nodes...][u64 len][u64 root][u32 crc]  *)
(*           (the crc only from version 3 on)                               *)
(*   a node's address is the offset of its last (state) byte; nodes are     *)
(*   laid out back to front:                                                *)
(*     [final out][outs][deltas][inputs][256-byte index if >32 transitions  *)
(*      and version>=2][pack sizes][ntrans?][state]                         *)
(*   state byte: top two bits 11 = one transition to the previous node,     *)
(*   10 = one transition, 0x = any number (x = final); the low 6 bits hold  *)
(*   a common-input code or the transition count.                           *)
(*   deltas are relative to the node's first byte; delta 0 = address 0, the *)
(*   shared empty final node.                                               *)
(* Offsets are 0-based, TLA+ sequences 1-based: byte o of a file is b[o+1]. *)
EXTENDS Bytes, U64, TLC, Bitwise

---------------------------------------------------------------------------
(* The 6-bit common input codes (format constant, pinned revision).        *)
CommonInv ==
  <<116,101,47,111,97,115,114,105,112,99,110,119,46,104,108,109,45,100,117,48,49,50,103,61,58,98,102,51,121,53,38,95,
    52,118,57,54,55,56,107,37,63,120,67,68,65,83,70,73,66,69,106,80,84,122,82,78,77,43,76,79,113,72,71,87,85,86,44,89,
    75,74,90,88,81,59,41,40,126,91,93,36,33,39,42,64,0,1,2,3,4,5,6,7,8,9,10,11,12,13,14,15,16,17,18,19,20,21,22,23,24,
    25,26,27,28,29,30,31,32,34,35,60,62,92,94,96,123,124,125,127,128,129,130,131,132,133,134,135,136,137,138,139,140,
    141,142,143,144,145,146,147,148,149,150,151,152,153,154,155,156,157,158,159,160,161,162,163,164,165,166,167,168,
    169,170,171,172,173,174,175,176,177,178,179,180,181,182,183,184,185,186,187,188,189,190,191,192,193,194,195,196,
    197,198,199,200,201,202,203,204,205,206,207,208,209,210,211,212,213,214,215,216,217,218,219,220,221,222,223,224,
    225,226,227,228,229,230,231,232,233,234,235,236,237,238,239,240,241,242,243,244,245,246,247,248,249,250,251,252,
    253,254,255>>
ASSUME Len(CommonInv) = 256 /\ { CommonInv[i] : i \in 1..256 } = 0..255

\* code (1..63) -> byte; code 0 means "input byte stored explicitly"
CommonInput(code) == CommonInv[code]
\* byte -> code 1..63, or 0 if the byte is not among the 63 most common
CommonCode(b) == LET i == CHOOSE j \in 1..256 : CommonInv[j] = b IN IF i <= 63 THEN i ELSE 0

---------------------------------------------------------------------------
(* total byte access: out-of-range reads yield 0 and are caught by the      *)
(* extent check of the enclosing decoder                                    *)
Rd(b, o) == IF o >= 0 /\ o < Len(b) THEN b[o + 1] ELSE 0
\* n bytes at offset o as a canonical U64
RdU(b, o, n) == UTrim([i \in 1..n |-> Rd(b, o + i - 1)])
\* n <= 8 bytes at offset o as a TLC integer; -1 if it does not fit 31 bits
RdN(b, o, n) == LET v == RdU(b, o, n) IN IF UFitsNat(v) THEN UToNat(v) ELSE -1

TRANS_INDEX_THRESHOLD == 32
HasIndex(version, nt) == version >= 2 /\ nt > TRANS_INDEX_THRESHOLD

EmptyFinalNode == [ok |-> TRUE, final |-> TRUE, fout |-> UZero, trans |-> <<>>, start |-> 0, form |-> "EF"]
Malformed == [ok |-> FALSE, final |-> FALSE, fout |-> UZero, trans |-> <<>>, start |-> 0, form |-> "BAD"]

\* target address of a delta stored in a node whose first byte is at `start`
TargetOf(start, delta) == IF delta = 0 THEN 0 ELSE start - delta

\* the node at `addr` with its transitions' deltas as stored
DecodeRaw(b, addr, version) ==
  IF addr < 0 \/ addr >= Len(b) THEN Malformed
  ELSE
  LET st == Rd(b, addr)
      top == st \div 64
      low == st % 64 IN
  IF top = 3 THEN
     \* one transition, no output, to the node just before this one
     LET il == IF low = 0 THEN 1 ELSE 0
         inp == IF low = 0 THEN Rd(b, addr - 1) ELSE CommonInput(low)
         start == addr - il IN
     IF start < 1 THEN Malformed ELSE
     [ok |-> TRUE, final |-> FALSE, fout |-> UZero,
      trans |-> << [inp |-> inp, out |-> UZero, delta |-> 1] >>, start |-> start, form |-> "OTN"]
  ELSE IF top = 2 THEN
     LET il == IF low = 0 THEN 1 ELSE 0
         inp == IF low = 0 THEN Rd(b, addr - 1) ELSE CommonInput(low)
         sz == Rd(b, addr - il - 1)
         ts == sz \div 16
         os == sz % 16
         start == addr - il - 1 - ts - os
         delta == IF ts = 0 THEN 0 ELSE RdN(b, addr - il - 1 - ts, ts)
         out == IF os = 0 THEN UZero ELSE RdU(b, start, os) IN
     IF start < 0 \/ ts > 8 \/ os > 8 \/ delta < 0 THEN Malformed ELSE
     [ok |-> TRUE, final |-> FALSE, fout |-> UZero,
      trans |-> << [inp |-> inp, out |-> out, delta |-> delta] >>, start |-> start, form |-> "OT"]
  ELSE
     LET fin == (top = 1)
         nl == IF low = 0 THEN 1 ELSE 0
         nt0 == IF low = 0 THEN Rd(b, addr - 1) ELSE low
         nt == IF low = 0 /\ nt0 = 1 THEN 256 ELSE nt0
         sz == Rd(b, addr - nl - 1)
         ts == sz \div 16
         os == sz % 16
         ix == IF HasIndex(version, nt) THEN 256 ELSE 0
         inpEnd == addr - nl - 1 - ix       \* one past the inputs block
         start == inpEnd - nt - nt * ts - nt * os - (IF fin THEN os ELSE 0)
         delta(i) == IF ts = 0 THEN 0 ELSE RdN(b, inpEnd - nt - (i + 1) * ts, ts)
         tr(i) ==   \* i \in 0..nt-1, in input order
            [inp |-> Rd(b, inpEnd - i - 1),
             out |-> IF os = 0 THEN UZero ELSE RdU(b, inpEnd - nt - nt * ts - (i + 1) * os, os),
             delta |-> delta(i)]
         fo == IF fin /\ os > 0 THEN RdU(b, start, os) ELSE UZero IN
     IF start < 0 \/ ts > 8 \/ os > 8 \/ (\E i \in 0..(nt - 1) : delta(i) < 0)
     THEN Malformed ELSE
     [ok |-> TRUE, final |-> fin, fout |-> fo, trans |-> TLCEval([i \in 1..nt |-> tr(i - 1)]), start |-> start, form |-> "AT"]

\* ... with the deltas resolved to addresses (OneTransNext: the previous node)
DecodeNode(b, addr, version) ==
  IF addr = 0 THEN EmptyFinalNode
  ELSE LET r == DecodeRaw(b, addr, version) IN
       IF ~r.ok THEN Malformed
       ELSE IF \E i \in 1..Len(r.trans) : r.trans[i].delta > r.start THEN Malformed
       ELSE [r EXCEPT !.trans = [i \in 1..Len(r.trans) |->
                [inp |-> r.trans[i].inp, out |-> r.trans[i].out, addr |-> TargetOf(r.start, r.trans[i].delta)]]]

\* the 256-byte index of a wide node: entry for byte x is the position of the
\* transition on x, or any value >= the transition count if there is none
IndexOK(b, addr, version, node) ==
    LET nt == Len(node.trans) IN
    IF ~(node.form = "AT" /\ HasIndex(version, nt)) THEN TRUE
    ELSE LET nl == IF Rd(b, addr) % 64 = 0 THEN 1 ELSE 0
             base == addr - nl - 1 - 256 IN
         \* every transition is indexed at its input byte ...
         /\ \A i \in 1..nt : Rd(b, base + node.trans[i].inp) = i - 1
         \* ... and every entry below the count points back to its byte
         /\ \A x \in 0..255 : LET e == Rd(b, base + x) IN IF e < nt THEN node.trans[e + 1].inp = x ELSE TRUE

\* a well-formed node: inputs strictly increasing, targets backward, index right
NodeOK(b, addr, version, node) ==
    /\ node.ok
    /\ \A i \in 1..(Len(node.trans) - 1) : node.trans[i].inp < node.trans[i + 1].inp
    /\ \A i \in 1..Len(node.trans) : node.trans[i].addr = 0 \/ (node.trans[i].addr >= 16 /\ node.trans[i].addr < node.start)
    /\ IndexOK(b, addr, version, node)

---------------------------------------------------------------------------
(* Header and footer.  Open yields the *set* of admissible results where    *)
(* the property text leaves the precedence open.                            *)
MinSize(version) == IF version >= 3 THEN 36 ELSE 32
VersionOf(b) == RdU(b, 0, 8)
SupportedVersion(v) == v \in {<<1>>, <<2>>, <<3>>}
VersionNat(v) == v[1]

FooterEnd(b, version) == IF version >= 3 THEN Len(b) - 4 ELSE Len(b)
RootAddr(b, version) == RdN(b, FooterEnd(b, version) - 8, 8)
NumKeys(b, version) == RdU(b, FooterEnd(b, version) - 16, 8)
TypeOf(b) == RdU(b, 8, 8)
StoredSum(b) == [i \in 1..4 |-> Rd(b, Len(b) - 4 + i - 1)]

\* "Ok", "Version", "Format": the classes of results C10/C20 name
OpenClasses(b) ==
    IF Len(b) < 8 THEN {"Format"}
    ELSE LET v == VersionOf(b) IN
         IF ~SupportedVersion(v)
         \* (no smallest size is defined for an unsupported version: below the
         \* largest minimum either error is admissible)
         THEN (IF Len(b) < 36 THEN {"Format", "Version"} ELSE {"Version"})
         ELSE IF Len(b) < MinSize(VersionNat(v)) THEN {"Format"}
         \* an implausible root address may (but need not) be rejected
         ELSE {"Ok", "Format"}

---------------------------------------------------------------------------
(* Reading a file by the format alone *)
RECURSIVE LangFrom(_, _, _, _, _)
LangFrom(b, version, addr, key, out) ==
    LET n == DecodeNode(b, addr, version)
        here == IF n.final THEN { <<key, UAdd(out, n.fout)>> } ELSE {}
    IN  IF ~n.ok THEN { <<"MALFORMED", addr>> }
        ELSE here \cup UNION { LangFrom(b, version, n.trans[i].addr, Append(key, n.trans[i].inp),
                                        UAdd(out, n.trans[i].out)) : i \in 1..Len(n.trans) }
Lang(b, version) == LangFrom(b, version, RootAddr(b, version), <<>>, UZero)

\* lookup by the format alone, through the index table where the format has one
FindInputByFormat(b, addr, version, node, x) ==
    LET nt == Len(node.trans) IN
    IF node.form = "AT" /\ HasIndex(version, nt)
    THEN LET nl == IF Rd(b, addr) % 64 = 0 THEN 1 ELSE 0
             e == Rd(b, addr - nl - 1 - 256 + x)
         IN  IF e >= nt THEN 0 ELSE e + 1
    ELSE LET I == { i \in 1..nt : node.trans[i].inp = x } IN IF I = {} THEN 0 ELSE CHOOSE i \in I : TRUE

RECURSIVE GetFrom(_, _, _, _, _, _)
GetFrom(b, version, addr, key, i, out) ==
    LET n == DecodeNode(b, addr, version) IN
    IF ~n.ok THEN <<"MALFORMED">>
    ELSE IF i > Len(key) THEN (IF n.final THEN Some(UAdd(out, n.fout)) ELSE None)
    ELSE LET t == FindInputByFormat(b, addr, version, n, key[i]) IN
         IF t = 0 THEN None
         ELSE GetFrom(b, version, n.trans[t].addr, key, i + 1, UAdd(out, n.trans[t].out))
GetByFormat(b, version, key) == GetFrom(b, version, RootAddr(b, version), key, 1, UZero)

---------------------------------------------------------------------------
(* CRC-32C (Castagnoli, reflected polynomial 0x82F63B78), Snappy masking.   *)
(* TLC integers are 32-bit signed, so a 32-bit quantity is a pair           *)
(* <<hi, lo>> of 16-bit halves; xor is the Bitwise module's (Java) ^^.       *)
(* Constant tables must not be built with RECURSIVE operators: TLC caches a  *)
(* zero-arity definition only if its evaluation involves none.              *)
W(hi, lo) == <<hi, lo>>
WXor(p, q) == <<p[1] ^^ q[1], p[2] ^^ q[2]>>
WNot(p) == <<65535 - p[1], 65535 - p[2]>>
WZero == <<0, 0>>
\* 4 bytes little-endian <-> halves
WOfBytes(c) == <<c[3] + 256 * c[4], c[1] + 256 * c[2]>>
WToBytes(p) == <<p[2] % 256, p[2] \div 256, p[1] % 256, p[1] \div 256>>
WShr1(p) == <<p[1] \div 2, (p[2] \div 2) + (p[1] % 2) * 32768>>
WShr8(p) == <<p[1] \div 256, (p[2] \div 256) + (p[1] % 256) * 256>>
Poly == <<33526, 15224>>                      \* 0x82F6 3B78
LfsrStep(p) == IF p[2] % 2 = 1 THEN WXor(WShr1(p), Poly) ELSE WShr1(p)
Lfsr8(p) == LfsrStep(LfsrStep(LfsrStep(LfsrStep(LfsrStep(LfsrStep(LfsrStep(LfsrStep(p))))))))

\* bit-serial definition: xor the byte into the low 8 bits, 8 LFSR steps
BitwiseByte(p, x) == Lfsr8(<<p[1], p[2] ^^ x>>)
RECURSIVE BitwiseFrom(_, _, _)
BitwiseFrom(p, data, i) == IF i > Len(data) THEN p ELSE BitwiseFrom(BitwiseByte(p, data[i]), data, i + 1)
\* CRC of `data` continuing from a previous CRC `prev` (4 bytes LE), as the crate's update()
Crc32cBitwiseUpdate(prev, data) == WToBytes(WNot(BitwiseFrom(WNot(WOfBytes(prev)), data, 1)))
Crc32cBitwise(data) == Crc32cBitwiseUpdate(<<0, 0, 0, 0>>, data)

\* table-driven formulation.  The table is a parameter T: TLC does not cache
\* constants whose evaluation involves RECURSIVE operators (the Bitwise
\* module's ^^ is one), so users compute MakeCrcTable once into a variable.
MakeCrcTable == [x \in 0..255 |-> Lfsr8(<<0, x>>)]
TableByte(T, p, x) == WXor(WShr8(p), T[(p[2] % 256) ^^ x])
\* fold in chunks so that the recursion depth stays small (rule on recursion)
RECURSIVE TableRange(_, _, _, _, _)
TableRange(T, p, data, i, j) == IF i > j THEN p ELSE TableRange(T, TableByte(T, p, data[i]), data, i + 1, j)
RECURSIVE TableChunks(_, _, _, _)
TableChunks(T, p, data, i) ==
    IF i > Len(data) THEN p
    ELSE LET j == IF i + 255 < Len(data) THEN i + 255 ELSE Len(data)
         IN  TableChunks(T, TableRange(T, p, data, i, j), data, j + 1)
Crc32cUpdate(T, prev, data) == WToBytes(WNot(TableChunks(T, WNot(WOfBytes(prev)), data, 1)))
Crc32cTable(T, data) == Crc32cUpdate(T, <<0, 0, 0, 0>>, data)

\* the crate's fast path transcribed: 16 bytes per step through 16 tables,
\* table j+1 from table j: T[j+1][x] = (T[j][x] >> 8) ^ T[0][T[j][x] & 0xFF].
\* TS is the sequence of the 16 tables (TS[1] = T).
NextTable(T0, T) == [x \in 0..255 |-> WXor(WShr8(T[x]), T0[T[x][2] % 256])]
RECURSIVE TableSeq(_, _)
TableSeq(acc, j) == IF j > 15 THEN acc ELSE TableSeq(Append(acc, NextTable(acc[1], acc[Len(acc)])), j + 1)
MakeTable16 == TableSeq(<<MakeCrcTable>>, 1)
Slice16Block(TS, p, d, o) ==   \* o: 0-based offset of the block; d[o+1] is its first byte
    LET x == WXor(p, <<d[o + 3] + 256 * d[o + 4], d[o + 1] + 256 * d[o + 2]>>)
    IN  WXor(WXor(WXor(WXor(WXor(WXor(WXor(WXor(WXor(WXor(WXor(WXor(WXor(WXor(WXor(
            TS[1][d[o + 16]], TS[2][d[o + 15]]), TS[3][d[o + 14]]), TS[4][d[o + 13]]), TS[5][d[o + 12]]), TS[6][d[o + 11]]),
            TS[7][d[o + 10]]), TS[8][d[o + 9]]), TS[9][d[o + 8]]), TS[10][d[o + 7]]), TS[11][d[o + 6]]), TS[12][d[o + 5]]),
            TS[13][x[1] \div 256]), TS[14][x[1] % 256]), TS[15][x[2] \div 256]), TS[16][x[2] % 256])
RECURSIVE Slice16From(_, _, _, _)
Slice16From(TS, p, data, o) ==
    IF Len(data) - o >= 16 THEN Slice16From(TS, Slice16Block(TS, p, data, o), data, o + 16)
    ELSE TableRange(TS[1], p, data, o + 1, Len(data))
Crc32cSlice16Update(TS, prev, data) == WToBytes(WNot(Slice16From(TS, WNot(WOfBytes(prev)), data, 0)))
Crc32cSlice16(TS, data) == Crc32cSlice16Update(TS, <<0, 0, 0, 0>>, data)

\* Snappy-style masking: rotate right by 15, add 0xA282EAD8 (mod 2^32)
WRotR15(p) == LET hi == p[1] lo == p[2] IN
    \* value = hi * 2^16 + lo; ror 15 = (value >> 15) | (value << 17)
    <<((hi \div 32768) + 2 * lo) % 65536, (lo \div 32768) + 2 * (hi % 32768)>>
WAdd(p, q) == LET l == p[2] + q[2] IN <<(p[1] + q[1] + l \div 65536) % 65536, l % 65536>>
MaskW(p) == WAdd(WRotR15(p), <<41602, 60120>>)          \* 0xA282 EAD8
Mask(c) == WToBytes(MaskW(WOfBytes(c)))

MaskedChecksum(T, data) == Mask(Crc32cTable(T, data))
\* the checksum a version-3 file must carry: over everything before it
ExpectedSum(T, b) == MaskedChecksum(T, [i \in 1..(Len(b) - 4) |-> b[i]])

---------------------------------------------------------------------------
(* Writing a file by the format (the reference encoder of C10).            *)
U64LE8(v) == UPackIn(v, 8)
NatLE8(n) == UPackIn(UFromNat(n), 8)
DeltaOf(start, target) == IF target = 0 THEN 0 ELSE start - target
NatPackSize(n) == IF n < 256 THEN 1 ELSE IF n < 65536 THEN 2 ELSE IF n < 16777216 THEN 3 ELSE 4
SeqMax(q) == IF q = <<>> THEN 0 ELSE NatMax({ q[i] : i \in 1..Len(q) })
Rev(q) == [i \in 1..Len(q) |-> q[Len(q) + 1 - i]]
RECURSIVE Concat(_)
Concat(qs) == IF qs = <<>> THEN <<>> ELSE Head(qs) \o Concat(Tail(qs))

\* node = [final, fout, trans]; `start` = offset of its first byte; lastAddr =
\* address of the previously written node.  The form choice is the crate's.
EncodeNode(node, start, lastAddr, version) ==
    LET nt == Len(node.trans) IN
    IF nt = 1 /\ ~node.final THEN
       LET t == node.trans[1]
           code == CommonCode(t.inp)
           inpB == IF code = 0 THEN <<t.inp>> ELSE <<>> IN
       IF t.addr = lastAddr /\ t.out = UZero THEN inpB \o <<192 + code>>
       ELSE LET os == IF t.out = UZero THEN 0 ELSE UPackSize(t.out)
                d == DeltaOf(start, t.addr)
                ts == NatPackSize(d)
            IN  (IF os = 0 THEN <<>> ELSE UPackIn(t.out, os)) \o UPackIn(UFromNat(d), ts)
                \o <<ts * 16 + os>> \o inpB \o <<128 + code>>
    ELSE
       LET anyOut == node.fout # UZero \/ \E i \in 1..nt : node.trans[i].out # UZero
           os == IF ~anyOut THEN 0
                 ELSE SeqMax([i \in 1..nt |-> UPackSize(node.trans[i].out)] \o <<UPackSize(node.fout)>>)
           ts == IF nt = 0 THEN 0 ELSE SeqMax([i \in 1..nt |-> NatPackSize(DeltaOf(start, node.trans[i].addr))])
           outs == IF os = 0 THEN <<>>
                   ELSE (IF node.final THEN UPackIn(node.fout, os) ELSE <<>>)
                        \o Concat(Rev([i \in 1..nt |-> UPackIn(node.trans[i].out, os)]))
           deltas == Concat(Rev([i \in 1..nt |-> UPackIn(UFromNat(DeltaOf(start, node.trans[i].addr)), ts)]))
           inputs == Rev([i \in 1..nt |-> node.trans[i].inp])
           index == IF HasIndex(version, nt)
                    THEN [x \in 1..256 |-> LET I == { i \in 1..nt : node.trans[i].inp = x - 1 }
                                           IN IF I = {} THEN 255 ELSE (CHOOSE i \in I : TRUE) - 1]
                    ELSE <<>>
           ntB == IF nt >= 1 /\ nt <= 63 THEN <<>> ELSE IF nt = 256 THEN <<1>> ELSE <<nt>>
           stB == (IF node.final THEN 64 ELSE 0) + (IF nt >= 1 /\ nt <= 63 THEN nt ELSE 0)
       IN  outs \o deltas \o inputs \o index \o <<ts * 16 + os>> \o ntB \o <<stB>>

IsEmptyFinal(node) == node.final /\ node.trans = <<>> /\ node.fout = UZero

\* A content as a trie-shaped transducer.  placement "final": every value sits
\* on the final output of its key's node; "push": values are pushed toward the
\* root as far as possible (what a minimal builder produces).
BelowVals(c, p) == { c[i][2] : i \in { i \in 1..Len(c) : IsPrefixOf(p, c[i][1]) } }
UMinSet(S) == CHOOSE v \in S : \A w \in S : ULeq(v, w)
AccOut(c, p, placement) == IF p = <<>> \/ placement = "final" THEN UZero ELSE UMinSet(BelowVals(c, p))
InputsAt(c, p) == { c[i][1][Len(p) + 1] : i \in { i \in 1..Len(c) : IsPrefixOf(p, c[i][1]) /\ Len(c[i][1]) > Len(p) } }
SortedNat(S) == LET RECURSIVE F(_) F(T) == IF T = {} THEN <<>> ELSE LET m == NatMin(T) IN <<m>> \o F(T \ {m}) IN F(S)

\* emits the subtree below prefix p after `bytes`; returns [bytes, addr, last]
RECURSIVE EmitTrie(_, _, _, _, _, _)
EmitTrie(c, p, bytes, last, version, placement) ==
    LET ins == SortedNat(InputsAt(c, p))
        RECURSIVE Kids(_, _, _, _)
        Kids(i, bs, la, acc) ==
            IF i > Len(ins) THEN [bytes |-> bs, last |-> la, addrs |-> acc]
            ELSE LET r == EmitTrie(c, Append(p, ins[i]), bs, la, version, placement)
                 IN  Kids(i + 1, r.bytes, r.last, Append(acc, r.addr))
        k == Kids(1, bytes, last, <<>>)
        isKey == \E i \in 1..Len(c) : c[i][1] = p
        myVal == IF isKey THEN (CHOOSE i \in 1..Len(c) : c[i][1] = p) ELSE 0
        node == [final |-> isKey,
                 fout |-> IF isKey THEN USub(c[myVal][2], AccOut(c, p, placement)) ELSE UZero,
                 trans |-> [i \in 1..Len(ins) |->
                              [inp |-> ins[i],
                               out |-> USub(AccOut(c, Append(p, ins[i]), placement), AccOut(c, p, placement)),
                               addr |-> k.addrs[i]]]]
    IN  IF IsEmptyFinal(node) THEN [bytes |-> k.bytes, addr |-> 0, last |-> k.last]
        ELSE LET enc == EncodeNode(node, Len(k.bytes), k.last, version)
                 nb == k.bytes \o enc
             IN  [bytes |-> nb, addr |-> Len(nb) - 1, last |-> Len(nb) - 1]

EncodeFile(T, c, version, ty, placement) ==
    LET hdr == NatLE8(version) \o NatLE8(ty)
        r == EmitTrie(c, <<>>, hdr, 1, version, placement)     \* 1 = "no previous node"
        body == r.bytes \o NatLE8(Len(c)) \o NatLE8(r.addr)
    IN  IF version >= 3 THEN body \o MaskedChecksum(T, body) ELSE body
=============================================================================
