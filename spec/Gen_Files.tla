----------------------------- MODULE Gen_Files -----------------------------
(* Spec -> code (C10): files of format versions 1, 2 and 3 written by the   *)
(* specification's own encoder, printed as replay lines.  The harness opens *)
(* them with the real crate and records what it answers.                    *)
EXTENDS FstFormat, SequencesExt, Json

VARIABLES pc, c, v, p, T
vars == <<pc, c, v, p, T>>

Sym == {97, 255}
Universe == StringsUpTo(Sym, 2)
Vals == {UZero, <<7>>, <<0, 1>>}
SmallContents ==
    UNION { { [i \in 1..Len(ks) |-> <<ks[i], vv[i]>>] : vv \in [1..Len(ks) -> Vals] }
            : ks \in { SetToSortSeq(S, Lex) : S \in { X \in SUBSET Universe : Cardinality(X) <= 2 } } }
\* directed: fan-outs where version 1 has no index and versions 2-3 have one; pack boundaries
Wide(nt, tail, val(_)) == [i \in 1..nt |-> << <<i - 1 + (256 - nt)>> \o tail, val(i) >>]
\* every byte value as the input of a one-transition node: the 63 common-input codes and
\* the explicitly stored bytes (chains use the OneTransNext form; with outputs OneTrans)
CommonKey == [i \in 1..63 |-> CommonInv[i]]
AllBytesKey == [i \in 1..256 |-> i - 1]
\* a value that needs exactly k bytes (low byte `low`, top byte `top`)
ValK(k, low, top) == IF k = 1 THEN <<top>> ELSE <<low>> \o [i \in 1..(k - 2) |-> 0] \o <<top>>
\* three transitions at the root whose outputs need exactly k bytes, other bytes after them
PackK(k) == << <<<<97>>, ValK(k, 5, 1)>>, <<<<98>>, ValK(k, 1, 2)>>, <<<<99, 100>>, ValK(k, 3, 255)>> >>
\* ... and a single transition (OneTrans form) with a k-byte output and a k-byte final output below it
PackOneK(k) == << <<<<104>>, ValK(k, 9, 1)>>, <<<<104, 105>>, ValK(k, 9, 3)>> >>
Directed == { PackK(k) : k \in 1..8 } \cup { PackOneK(k) : k \in 1..8 } \cup {
    << <<CommonKey, <<5>>>> >>,
    << <<AllBytesKey, UZero>> >>,
    << <<Rev(CommonKey), <<0, 1>>>>, <<CommonKey, <<5>>>>, <<CommonKey \o <<113, 72>>, <<1>>>> >>,
    << <<<<72>>, <<9>>>>, <<<<72, 113>>, <<3>>>>, <<<<113, 72, 113>>, <<300 % 256, 1>>>> >>,
    Wide(31, <<>>, LAMBDA i : UFromNat(i)),
    Wide(32, <<>>, LAMBDA i : UFromNat(i + 250)),
    Wide(32, <<7>>, LAMBDA i : UZero),
    << <<<<1>>, <<5>>>> >> \o Wide(32, <<>>, LAMBDA i : UFromNat(i)),
    Wide(33, <<>>, LAMBDA i : UFromNat(i)),
    Wide(33, <<120>>, LAMBDA i : UZero),
    Wide(40, <<>>, LAMBDA i : IF i % 2 = 0 THEN <<0, 0, 0, 0, 1>> ELSE <<255>>),
    Wide(256, <<>>, LAMBDA i : UFromNat(300 - i)),
    Wide(256, <<0>>, LAMBDA i : UFromNat(i * 256)),
    << <<<<>>, <<9>>>> >> \o Wide(64, <<1, 2>>, LAMBDA i : UFromNat(70000 + i)),
    << <<<<97>>, <<255, 255, 255, 255, 255, 255, 255, 255>>>>, <<<<97, 98>>, UZero>>, <<<<98>>, <<0, 0, 1>>>> >>
  }

Init == pc = "init" /\ c = <<>> /\ v = 0 /\ p = "" /\ T = MakeCrcTable
Pick == /\ pc = "init" /\ pc' = "ready" /\ UNCHANGED T
        /\ c' \in SmallContents \cup Directed
        /\ v' \in {1, 2, 3}
        /\ p' \in {"final", "push"}
Next == Pick
Spec == Init /\ [][Next]_vars

Emit == pc = "ready" =>
          PrintT(<<"REPLAY", ToJson([version |-> v, placement |-> p, items |-> c, bytes |-> EncodeFile(T, c, v, 0, p)])>>)
=============================================================================
