----------------------------- MODULE Gen_Files -----------------------------
(* Spec -> code (C10): files of format versions 1, 2 and 3 written by the   *)
(* specification's own encoder, printed as replay lines.  The harness opens *)
(* them with the real crate and records what it answers.                    *)
EXTENDS FstFormat, SequencesExt, Json

VARIABLES pc, c, v, p, T
vars == <<pc, c, v, p, T>>

Sym == {97, 255}
Universe == StringsUpTo(Sym, 2)
Vals == {UZero, <<7>>, <<0, 1>>}
SmallContents ==
    UNION { { [i \in 1..Len(ks) |-> <<ks[i], vv[i]>>] : vv \in [1..Len(ks) -> Vals] }
            : ks \in { SetToSortSeq(S, Lex) : S \in { X \in SUBSET Universe : Cardinality(X) <= 2 } } }
\* directed: fan-outs where version 1 has no index and versions 2-3 have one; pack boundaries
Wide(nt, tail, val(_)) == [i \in 1..nt |-> << <<i - 1 + (256 - nt)>> \o tail, val(i) >>]
\* every byte value as the input of a one-transition node: the 63 common-input codes and
\* the explicitly stored bytes (chains use the OneTransNext form; with outputs OneTrans)
CommonKey == [i \in 1..63 |-> CommonInv[i]]
AllBytesKey == [i \in 1..256 |-> i - 1]
\* a value that needs exactly k bytes (low byte `low`, top byte `top`)
ValK(k, low, top) == IF k = 1 THEN <<top>> ELSE <<low>> \o [i \in 1..(k - 2) |-> 0] \o <<top>>
\* three transitions at the root whose outputs need exactly k bytes, other bytes after them
PackK(k) == << <<<<97>>, ValK(k, 5, 1)>>, <<<<98>>, ValK(k, 1, 2)>>, <<<<99, 100>>, ValK(k, 3, 255)>> >>
\* ... and a single transition (OneTrans form) with a k-byte output and a k-byte final output below it
PackOneK(k) == << <<<<104>>, ValK(k, 9, 1)>>, <<<<104, 105>>, ValK(k, 9, 3)>> >>
Directed == { PackK(k) : k \in 1..8 } \cup { PackOneK(k) : k \in 1..8 } \cup {
    << <<CommonKey, <<5>>>> >>,
    << <<AllBytesKey, UZero>> >>,
    << <<Rev(CommonKey), <<0, 1>>>>, <<CommonKey, <<5>>>>, <<CommonKey \o <<113, 72>>, <<1>>>> >>,
    << <<<<72>>, <<9>>>>, <<<<72, 113>>, <<3>>>>, <<<<113, 72, 113>>, <<300 % 256, 1>>>> >>,
    Wide(31, <<>>, LAMBDA i : UFromNat(i)),
    Wide(32, <<>>, LAMBDA i : UFromNat(i + 250)),
    Wide(32, <<7>>, LAMBDA i : UZero),
    << <<<<1>>, <<5>>>> >> \o Wide(32, <<>>, LAMBDA i : UFromNat(i)),
    Wide(33, <<>>, LAMBDA i : UFromNat(i)),
    Wide(33, <<120>>, LAMBDA i : UZero),
    Wide(40, <<>>, LAMBDA i : IF i % 2 = 0 THEN <<0, 0, 0, 0, 1>> ELSE <<255>>),
    Wide(256, <<>>, LAMBDA i : UFromNat(300 - i)),
    Wide(256, <<0>>, LAMBDA i : UFromNat(i * 256)),
    << <<<<>>, <<9>>>> >> \o Wide(64, <<1, 2>>, LAMBDA i : UFromNat(70000 + i)),
    << <<<<97>>, <<255, 255, 255, 255, 255, 255, 255, 255>>>>, <<<<97, 98>>, UZero>>, <<<<98>>, <<0, 0, 1>>>> >>
  }

\* Dense files: a chain of `depth` nodes, each with the same transitions on `syms` to the next
\* one (the last to the empty final node), outputs weighted so that the value of a key is its
\* rank.  k^depth keys in a few dozen bytes: the key count exceeds the file size, and every
\* node is shared by many keys (a trie-shaped encoder cannot produce that).
Pow(k, n) == LET RECURSIVE P(_) P(i) == IF i = 0 THEN 1 ELSE k * P(i - 1) IN P(n)
DenseNode(syms, addr, w) ==
    [final |-> FALSE, fout |-> UZero,
     trans |-> [j \in 1..Len(syms) |-> [inp |-> syms[j], out |-> UFromNat((j - 1) * w), addr |-> addr]]]
RECURSIVE EmitDense(_, _, _, _, _, _, _)
EmitDense(syms, level, depth, bytes, last, target, version) ==
    IF level = 0 THEN [bytes |-> bytes, addr |-> target]
    ELSE LET enc == EncodeNode(DenseNode(syms, target, Pow(Len(syms), depth - level)), Len(bytes), last, version)
             nb == bytes \o enc
         IN  EmitDense(syms, level - 1, depth, nb, Len(nb) - 1, Len(nb) - 1, version)
DenseKey(syms, depth, i) == [pos \in 1..depth |-> syms[((i \div Pow(Len(syms), depth - pos)) % Len(syms)) + 1]]
DenseItems(syms, depth) == [i \in 1..Pow(Len(syms), depth) |-> <<DenseKey(syms, depth, i - 1), UFromNat(i - 1)>>]
EncodeDense(TT, syms, depth, version) ==
    LET hdr == NatLE8(version) \o NatLE8(0)
        r == EmitDense(syms, depth, depth, hdr, 1, 0, version)
        body == r.bytes \o NatLE8(Pow(Len(syms), depth)) \o NatLE8(r.addr)
    IN  IF version >= 3 THEN body \o MaskedChecksum(TT, body) ELSE body
DenseShapes == { <<<<97, 98, 99, 100>>, 4>>, <<<<0, 97, 255>>, 5>>, <<<<97, 98>>, 8>>, <<<<1, 2, 3, 4, 5, 6, 7>>, 3>> }

Init == pc = "init" /\ c = <<>> /\ v = 0 /\ p = "" /\ T = MakeCrcTable
Pick == /\ pc = "init" /\ pc' = "ready" /\ UNCHANGED T
        /\ c' \in SmallContents \cup Directed
        /\ v' \in {1, 2, 3}
        /\ p' \in {"final", "push"}
PickDense == /\ pc = "init" /\ pc' = "dense" /\ UNCHANGED T
             /\ c' \in DenseShapes
             /\ v' \in {1, 2, 3}
             /\ p' = "dense"
Next == Pick \/ PickDense
Spec == Init /\ [][Next]_vars

Emit == /\ pc = "ready" =>
          PrintT(<<"REPLAY", ToJson([version |-> v, placement |-> p, items |-> c, bytes |-> EncodeFile(T, c, v, 0, p)])>>)
        /\ pc = "dense" =>
          PrintT(<<"REPLAY", ToJson([version |-> v, placement |-> p, items |-> DenseItems(c[1], c[2]), bytes |-> EncodeDense(T, c[1], c[2], v)])>>)
=============================================================================
