SPECIFICATION Spec
CONSTANTS
  Modes = {"crc","syndrome"}
  MaxDist = 512
  Versions = {3}
INVARIANTS CrcOK NodesOK WideOK FilesOK SyndromeOK
CHECK_DEADLOCK FALSE
