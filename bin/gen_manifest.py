#!/usr/bin/env python3
"""Regenerates /verif/MANIFEST.json from the table below (one source of truth)."""
import json
import os
import subprocess

VERIF = os.path.dirname(os.path.dirname(os.path.abspath(__file__)))

TRUST = ("Trusted: TLC and the CommunityModules Json/IOUtils modules; serde_json; the harness' faithfulness in logging "
         "(each logged result is the value the call returned); small-scope bounds as stated in DESIGN.md section 5.")

CHECKS = {
    "C01": ("model_checking",
            "TLC validates every build/open/stream event recorded from the real crate against the abstract data type FstAbs "
            "(layer A) and model-checks the builder design (MC_Build) for every cache behaviour in a small scope; replayed "
            "behaviours bind the model to the code.",
            "TLA+ spec + TLC model checking + trace validation", "5 (C01)"),
    "C02": ("model_checking", "Every recorded get/contains_key/contains result is checked by TLC against FstAbs!Lookup (certified by a rank hint); "
            "probes cover keys, prefixes, extensions, substitutions and all 256 bytes below wide (indexed) nodes.",
            "TLA+ spec + TLC trace validation", "5 (C02)"),
    "C03": ("model_checking", "Every next() of recorded range streams is checked by TLC against FstAbs!RangeSeq (last bound call of each side wins).",
            "TLA+ spec + TLC trace validation", "5 (C03)"),
    "C04": ("model_checking", "Every next() of recorded search / search_with_state streams over table automata (random DFAs with weakened sound hints, "
            "tabulated shipped automata) is checked by TLC, including the reported automaton state.",
            "TLA+ spec + TLC trace validation", "5 (C04)"),
    "C05": ("model_checking", "Every next() of recorded set operations over inputs of all stream kinds is checked by TLC against the declaratively "
            "certified merge table; set predicates against set theory.",
            "TLA+ spec + TLC trace validation", "5 (C05)"),
    "C06": ("model_checking", "Every recorded insert/add/extend/from_iter result (variant and payload) must equal FstAbs!InsertResult and rejected calls "
            "must leave no trace in the finished FST.",
            "TLA+ spec + TLC trace validation", "5 (C06)"),
    "C16": ("model_checking", "Every recorded get_key/get_key_into result on value-increasing maps is checked by TLC against FstAbs!InverseOf.",
            "TLA+ spec + TLC trace validation", "5 (C16)"),
}

CHECKS.update({
    "C08": ("model_checking", "TLC shows the bit-serial, table and transcribed fast-path CRC-32C agree for every chunking in scope and, by linearity, that "
            "every single-byte error at every distance up to 4096 bytes has a non-zero syndrome; the crate's own checksums of arbitrary data "
            "and its open/verify verdicts on every mutated copy are validated by TLC from the bytes alone.",
            "TLA+ spec + TLC model checking + trace validation", "5 (C08)"),
    "C09": ("translation_validation", "Every file the real builders produce is validated by TLC against an independent TLA+ semantics of the "
            "version-3 format (FstFormat): header, footer, checksum, every node, tiling, backward targets, and the map read by the format "
            "alone; the real node encoder is validated at all delta widths through hook H3.",
            "TLA+ format spec + TLC validation of produced files", "5 (C09)"),
    "C10": ("model_checking", "The specification's own encoder writes files of versions 1, 2, 3 (TLC enumerates the scope); the real crate must open "
            "them through every container type and answer every query per FstAbs; opening classes over the header/footer space are "
            "checked against FstFormat!OpenClasses.",
            "TLA+ spec + TLC-generated files replayed into the crate + trace validation", "5 (C10)"),
    "C20": ("model_checking", "Every explored byte string goes through open, accessors and verify under catch_unwind and the recorded results must be "
            "those FstFormat derives from the bytes (a panic has no spec action); absence of unsafe code is decided by rustc -F unsafe_code.",
            "TLA+ spec + TLC trace validation; compiler lint for the unsafe clause", "5 (C20), 7"),
})

CHECKS.update({
    "C07": ("model_checking", "TLC explores every acceptance schedule of an arbitrary sink against a producer of builder calls (MC_Sink: Counted, SinkExact, "
            "PrefixAlways); the real builders run against scripted sinks (every cap 1..16, every single short write, interrupts, "
            "pre-filled sinks, BufWriter, random schedules) and every write/flush/call with bytes_written() plus the final bytes are "
            "validated by TLC against FstSink and FstFormat.",
            "TLA+ spec + TLC model checking + trace validation", "5 (C07)"),
    "C11": ("fault_enumeration", "For every explored key sequence every write index 0..W-1 and the flush fail once (4 failure kinds, directly and behind a "
            "BufWriter); TLC validates against FstSink that the enclosing call returns Err(Io), never panics, and that finish is never Ok "
            "without all bytes accepted and flushed; MC_Sink shows NoSilentSuccess for every schedule at design level.",
            "fault enumeration judged by TLC trace validation against the TLA+ sink spec", "5 (C11)"),
})

CHECKS.update({
    "C12": ("model_checking", "TLC shows no duplicate node without eviction, the trie bound and set minimality for every history and cache "
            "behaviour in scope (MC_Build); every node-compile event of real builds (hook H2) is validated by TLC: sound hits, "
            "re-emission only after an eviction, minimality against right languages computed by TLC, corpus-scale minimality and "
            "sharing ratio.",
            "TLA+ spec + TLC model checking + trace validation of hook events", "5 (C12)"),
    "C15": ("model_checking", "TLC validates that every build of the same (type, sequence) through every construction entry point, repeated, across "
            "threads and across processes yields the same digest; MC_Build shows the emitted nodes are a function of the accepted "
            "sequence and the cache behaviour only.",
            "TLA+ spec + TLC trace validation", "5 (C15)"),
})

CHECKS.update({
    "C17": ("model_checking", "TLC checks the DfaBuilder algorithm as coded against the declarative edit distance on the UTF-8 encodings of every key in "
            "scope (MC_Lev) and validates the real automaton's verdict for every (q,d,k) of the scope, its search results, random longer "
            "strings and its behaviour under state limits.",
            "TLA+ spec + TLC model checking + trace validation", "5 (C17)"),
})

CHECKS.update({
    "C18": ("model_checking", "TLC checks hint soundness (exact) and the language equations for every composition shape over every sampled component pair "
            "with every sound hint assignment (MC_Automata) and validates runs of the real combinator types over real leaves on every "
            "string up to a length against the languages and exact reachability.",
            "TLA+ spec + TLC model checking + trace validation", "5 (C18)"),
})

CHECKS.update({
    "C19": ("model_checking", "TLC explores every interleaving of the batcher, main and worker threads and every regrouping for every configuration of the "
            "scope (termination under fairness, no temp name written twice, final = merge of all rows); runs of the real CLI binaries "
            "(hook H4: batch events, seeded delays) over inputs x batch sizes x fd limits x threads x schedules are validated by TLC "
            "file by file.",
            "TLA+ spec + TLC model checking (safety and liveness) + trace validation of real CLI runs", "5 (C19)"),
})

CHECKS.update({
    "C13": ("other", "A resource bound: measurements of the builder's heap at N = 10^5..10^7 keys (counting allocator) are judged by TLC against a bound "
            "formula without any term in N and against relational non-growth; the structural half (FstBuilder!Retained) is "
            "model-checked. Not model_checking: TLC evaluates the bound, it does not explore allocator behaviour.",
            "measurement judged by a TLA+ bound specification (TLC) + model-checked structural invariant", "5 (C13), 7"),
    "C14": ("other", "A resource bound: peak heap of traversals and set operations over growing FSTs is judged by TLC against bounds in k and the "
            "longest key only and against non-growth; zero allocations for open/get/contains_key over borrowed and mapped bytes.",
            "measurement judged by a TLA+ bound specification (TLC)", "5 (C14), 7"),
})

NOT_YET = {
}


def main():
    props = [json.loads(l) for l in open(os.path.join(VERIF, "properties.jsonl"))]
    hooks = subprocess.run(["git", "-C", "/repo", "log", "--format=%H", "--grep", "^verif hooks"], stdout=subprocess.PIPE, text=True).stdout.split()
    checks = []
    na = []
    for p in props:
        pid = p["id"]
        if pid in CHECKS:
            level, text, tech, ref = CHECKS[pid]
            checks.append({
                "property_id": pid,
                "quick_cmd": "bin/check %s --tier quick" % pid,
                "thorough_cmd": "bin/check %s --tier thorough" % pid,
                "evidence_file": "/verif/evidence/%s.json" % pid,
                "replay_cmd_template": "bin/check %s --replay {path}" % pid,
                "engine": "tlc+fstv",
                "level_claimed": {"category": level, "text": text, "design_ref": "DESIGN.md section " + ref},
                "level_note": TRUST,
                "technique": tech,
            })
        else:
            na.append({"property_id": pid, "reason": NOT_YET.get(pid, "check not built yet in this round (planned in DESIGN.md section 5); not claimed until its check exists")})
    man = {
        "version": 1,
        "setup_cmd": "bin/setup",
        "hooks": {
            "guard": "burntsushi_fst_verif",
            "enable": "RUSTFLAGS='--cfg burntsushi_fst_verif' (set in /verif/harness/.cargo/config.toml; bin/check passes it when building fst-bin)",
            "baseline_off_cmd": "cd /repo && cargo test --workspace --no-fail-fast --offline",
            "source_commits": hooks,
            "add_only": True,
        },
        "engines": [
            {"name": "tlc+fstv", "path": "/verif/bin/check", "serves_properties": sorted(CHECKS.keys()),
             "kind_free_text": "TLA+ specification in /verif/spec checked by TLC (exhaustive small-scope model checking of the design, "
                               "validation of traces recorded from the real crate, replay of TLC-generated behaviours); Rust harness fstv "
                               "in /verif/harness drives and records the crate"},
        ],
        "checks": checks,
        "not_applicable": na,
        "notes": "See DESIGN.md. Exit codes of bin/check: 0 held, 1 violation (VIOLATION line + replay file), 2 tool error/timeout/vacuity.",
    }
    with open(os.path.join(VERIF, "MANIFEST.json"), "w") as f:
        json.dump(man, f, indent=1)
    print("MANIFEST.json: %d checks, %d not_applicable" % (len(checks), len(na)))


if __name__ == "__main__":
    main()
