"""Shared machinery of bin/check: build, TLC runs, trace validation, evidence.

Exit codes: 0 property held on everything explored; 1 violation (with a
`VIOLATION property=<id> replay=<path>` line); 2 tool error / timeout / vacuity.
"""
import json
import os
import re
import shutil
import subprocess
import sys
import time

VERIF = os.path.dirname(os.path.dirname(os.path.abspath(__file__)))
SPEC = os.path.join(VERIF, "spec")
HARNESS = os.path.join(VERIF, "harness")
FSTV = os.path.join(HARNESS, "target", "release", "fstv")
REPO = os.environ.get("FST_REPO", "/repo")
TLA_JAR = "/opt/veriftools/tla/tla2tools.jar"


class ToolError(Exception):
    pass


def log(msg):
    print(msg, flush=True)


class Ctx:
    def __init__(self, prop, tier, seed, level):
        self.prop = prop
        self.tier = tier
        self.seed = seed
        self.level = level
        self.t0 = time.time()
        self.work = os.path.join(VERIF, "work", prop)
        os.makedirs(self.work, exist_ok=True)
        self.states = 0
        self.transitions = 0
        self.traces = 0
        self.evaluations = 0
        self.distinct = 0
        self.samples = []
        self.notes = []
        self.stages = []
        self.violations = []      # (description, replay path)
        self.known = []
        self.assumptions = []
        self.rule = ""
        self.exhaustive = False
        self.extra = {}
        self.known_findings = load_known_findings()

    def thorough(self):
        return self.tier == "thorough"

    def sample(self, x, cap=6):
        if len(self.samples) < cap:
            s = json.dumps(x)
            if len(s) > 1500:
                x = s[:1500] + "...(truncated)"
            self.samples.append(x)

    # -- findings -----------------------------------------------------------
    def violation(self, what, replay_obj):
        """Record a violation unless it is a listed open known finding."""
        if getattr(self, "extra_mode", False):
            # behaviour beyond the listed properties: reported, never an alarm on a property
            msg = "EXTRA-FINDING: (beyond the listed properties) " + what[:400]
            log(msg)
            self.notes.append(msg)
            return False
        for kf in self.known_findings:
            if kf.get("status") == "open" and kf.get("property") == self.prop and kf_matches(kf, replay_obj):
                msg = "KNOWN-FINDING: property=%s %s" % (self.prop, kf.get("what", ""))
                if msg not in self.known:
                    self.known.append(msg)
                    log(msg)
                return False
        n = len(self.violations) + 1
        path = os.path.join(self.work, "violation_%d.json" % n)
        replay_obj = dict(replay_obj)
        replay_obj.update({"property": self.prop, "what": what, "seed": self.seed, "tier": self.tier})
        with open(path, "w") as f:
            json.dump(replay_obj, f, indent=1)
        self.violations.append((what, path))
        log("VIOLATION property=%s replay=%s" % (self.prop, path))
        log("  " + what[:600])
        return True

    # -- evidence -----------------------------------------------------------
    def write_evidence(self):
        cov = {
            "states": int(self.states),
            "transitions": int(self.transitions),
            "traces_validated_against_impl": int(self.traces),
            "evaluations": int(self.evaluations),
            "distinct_nontrivial": int(self.distinct),
            "rule": self.rule,
            "samples": self.samples if self.samples else ["(no sample recorded)"],
            "exhaustive": bool(self.exhaustive),
            "stages": self.stages,
            "notes": self.notes,
            "known_findings_hit": self.known,
        }
        if self.level == "other":
            cov["explanation"] = self.rule
        if self.level == "translation_validation":
            cov["programs"] = int(self.extra.get("programs", self.traces))
            cov["disagreements_checked"] = int(self.extra.get("disagreements_checked", len(self.violations)))
        cov.update({k: v for k, v in self.extra.items() if k not in cov})
        ev = {
            "property_id": self.prop,
            "tier": self.tier,
            "seed": int(self.seed),
            "level": self.level,
            "coverage": cov,
            "assumptions": self.assumptions,
            "wall_s": round(time.time() - self.t0, 2),
            "violations": len(self.violations),
        }
        os.makedirs(os.path.join(VERIF, "evidence"), exist_ok=True)
        with open(os.path.join(VERIF, "evidence", self.prop + ".json"), "w") as f:
            json.dump(ev, f, indent=1)

    def finish(self):
        self.write_evidence()
        if self.violations:
            sys.exit(1)
        log("OK property=%s tier=%s wall=%.1fs states=%d traces=%d" % (self.prop, self.tier, time.time() - self.t0, self.states, self.traces))
        sys.exit(0)


def load_known_findings():
    p = os.path.join(VERIF, "known_findings.json")
    if not os.path.exists(p):
        return []
    with open(p) as f:
        return json.load(f).get("findings", [])


def kf_matches(kf, obj):
    """A known finding matches a replay object if every key of kf['match'] is
    present in obj['event'] (or obj) with an equal value."""
    m = kf.get("match")
    if not m:
        return False
    ev = obj.get("event", {}) if isinstance(obj.get("event"), dict) else {}
    for k, v in m.items():
        if ev.get(k, obj.get(k)) != v:
            return False
    return True


# ---------------------------------------------------------------------------
def build_harness():
    """Rebuild /repo (path dependency) and the harness with the hooks on."""
    t = time.time()
    env = dict(os.environ)
    env["CARGO_NET_OFFLINE"] = "true"
    r = subprocess.run(["cargo", "build", "--release", "--offline", "-q"], cwd=HARNESS, env=env,
                       stdout=subprocess.PIPE, stderr=subprocess.STDOUT, text=True)
    if r.returncode != 0:
        log(r.stdout[-4000:])
        raise ToolError("harness build failed")
    return time.time() - t


def build_fst_bin():
    """Build the `fst` CLI from /repo with the hooks on, into /verif/work."""
    env = dict(os.environ)
    env["CARGO_NET_OFFLINE"] = "true"
    env["RUSTFLAGS"] = "--cfg burntsushi_fst_verif --check-cfg cfg(burntsushi_fst_verif)"
    tdir = os.path.join(VERIF, "work", "target-bin")
    r = subprocess.run(["cargo", "build", "--release", "--offline", "-q", "-p", "fst-bin", "--target-dir", tdir],
                       cwd=REPO, env=env, stdout=subprocess.PIPE, stderr=subprocess.STDOUT, text=True)
    if r.returncode != 0:
        log(r.stdout[-4000:])
        raise ToolError("fst-bin build failed")
    return os.path.join(tdir, "release", "fst")


def fstv(args, timeout=3600, env=None):
    e = dict(os.environ)
    e["FST_REPO"] = REPO
    if env:
        e.update(env)
    r = subprocess.run([FSTV] + [str(a) for a in args], stdout=subprocess.PIPE, stderr=subprocess.PIPE, text=True,
                       timeout=timeout, env=e)
    if r.returncode != 0:
        raise ToolError("fstv %s failed (%d): %s" % (" ".join(map(str, args)), r.returncode, r.stderr[-2000:]))
    out = r.stdout.strip().splitlines()
    try:
        return json.loads(out[-1]) if out else {}
    except Exception:
        return {"raw": r.stdout[-2000:]}


# ---------------------------------------------------------------------------
STATE_RE = re.compile(r"(\d+) states generated, (\d+) distinct states found, (\d+) states left")


def run_tlc(module, cfg, metadir, workers=12, timeout=1800, env=None, simulate=None, extra=None, heap="8g", coverage=False):
    """Run TLC in /verif/spec.  Returns dict(out, generated, distinct, ok, err)."""
    e = dict(os.environ)
    dfs = ["-Dtlc2.tool.queue.IStateQueue=StateDeque"] if env and env.get("_DFS") else []
    if env:
        e.update({k: v for k, v in env.items() if not k.startswith("_")})
    shutil.rmtree(metadir, ignore_errors=True)
    cmd = ["java", "-Xss1g", "-Xmx" + heap, "-XX:+UseParallelGC"] + dfs + ["-cp", TLA_JAR + ":/opt/veriftools/tla/CommunityModules-deps.jar", "tlc2.TLC"]
    # fall back to the wrapper when the community jar name differs
    cmd += ["-workers", str(workers), "-metadir", metadir, "-cleanup", "-noGenerateSpecTE", "-config", cfg]
    if coverage:
        cmd += ["-coverage", "1"]
    if simulate:
        cmd += ["-simulate", simulate]
    if extra:
        cmd += extra
    cmd += [module]
    t = time.time()
    try:
        r = subprocess.run(["timeout", str(timeout)] + cmd, cwd=SPEC, env=e, stdout=subprocess.PIPE, stderr=subprocess.STDOUT, text=True)
    finally:
        shutil.rmtree(metadir, ignore_errors=True)
    out = r.stdout
    res = {"out": out, "wall": time.time() - t, "rc": r.returncode, "generated": 0, "distinct": 0}
    for m in STATE_RE.finditer(out):
        res["generated"] = int(m.group(1))
        res["distinct"] = int(m.group(2))
    res["timeout"] = r.returncode == 124
    res["ok"] = ("Model checking completed. No error has been found." in out) or (simulate is not None and r.returncode in (0,) and "Error:" not in out)
    m = re.search(r"Error: (.*)", out)
    res["err"] = m.group(1) if m else ""
    return res


def tlc_prints(out, tag):
    """Lines printed by PrintT(<<tag, ...>>)."""
    res = []
    for line in out.splitlines():
        if line.startswith('<<"' + tag + '"'):
            res.append(line)
    return res


def mc(ctx, name, module, cfg, workers=12, timeout=1800, env=None, heap="8g", must_cover=None):
    """An exhaustive design-level run; a failure is a tool/spec error (exit 2),
    since the design model does not read the code."""
    log("[mc] %s (%s)" % (name, cfg))
    r = run_tlc(module, cfg, os.path.join(ctx.work, "tlc_" + name), workers=workers, timeout=timeout, env=env, heap=heap, coverage=bool(must_cover))
    if r["timeout"]:
        raise ToolError("TLC timed out on %s" % name)
    if not r["ok"]:
        log(r["out"][-3000:])
        raise ToolError("model checking failed on %s: %s" % (name, r["err"]))
    ctx.states += r["distinct"]
    ctx.transitions += r["generated"]
    st = {"stage": name, "kind": "model_checking", "module": module, "cfg": cfg, "distinct_states": r["distinct"],
          "states_generated": r["generated"], "wall_s": round(r["wall"], 1)}
    if must_cover:
        cov = action_coverage(r["out"])
        st["action_coverage"] = cov
        for a in must_cover:
            if cov.get(a, 0) == 0:
                raise ToolError("vacuity: action %s of %s was never taken" % (a, name))
    ctx.stages.append(st)
    return r


COV_RE = re.compile(r"<(\w+) line \d+, col \d+ to line \d+, col \d+ of module (\w+)(?: \([\d ]+\))?>: (\d+):(\d+)")


def action_coverage(out):
    cov = {}
    for m in COV_RE.finditer(out):
        cov[m.group(1)] = cov.get(m.group(1), 0) + int(m.group(4))
    return cov


# ---------------------------------------------------------------------------
def read_events(path, lo, hi):
    """Events lo..hi (1-based, inclusive) of an NDJSON file."""
    res = []
    with open(path) as f:
        for i, line in enumerate(f, 1):
            if i > hi:
                break
            if i >= lo:
                res.append(json.loads(line))
    return res


def validate_trace(spec, cfg, trace, metadir, timeout=1800, heap="12g"):
    """Returns (accepted, matched_events, states, out)."""
    r = run_tlc(spec, cfg, metadir, workers=1, timeout=timeout, env={"TRACE": trace, "_DFS": "1"}, heap=heap)
    out = r["out"]
    if r["timeout"]:
        raise ToolError("trace validation timed out on %s" % trace)
    m = re.search(r'<<"TRACE-ACCEPTED", (\d+)>>', out)
    if m:
        return True, int(m.group(1)), r["distinct"], out
    m = re.search(r'<<"TRACE-REJECTED", (\d+)', out)
    if m:
        return False, int(m.group(1)), r["distinct"], out
    log(out[-3000:])
    raise ToolError("trace validation of %s ended without a verdict (TLC error: %s)" % (trace, r["err"]))


SEG_MARKER = {"Trace_Api.tla": '"ev":"Reset"', "Trace_Sink.tla": '"ev":"KNew"', "Trace_File.tla": '"ev":',
              "Trace_Build.tla": '"ev":"TNew"', "Trace_Aut.tla": '"ev":', "Trace_Lev.tla": '"ev":', "Trace_Merge.tla": '"ev":"Run"',
              "Trace_Mem.tla": '"ev":', "Trace_Cli.tla": '"ev":', "Trace_Graph.tla": '"ev":', "Trace_Step.tla": '"ev":"LNew"'}


def segment_bounds(path, d, marker='"ev":"Reset"'):
    """(start, end) lines of the marker-delimited segment containing line d."""
    start, end, n = 1, None, 0
    with open(path) as f:
        for i, line in enumerate(f, 1):
            n = i
            if marker in line[:120] or marker in line:
                if i <= d:
                    start = i
                elif end is None:
                    end = i - 1
    return start, (end if end is not None else n), n


def write_slice(path, out, lo, hi):
    with open(path) as f, open(out, "w") as g:
        for i, line in enumerate(f, 1):
            if i > hi:
                break
            if i >= lo:
                g.write(line)


def check_trace(ctx, name, spec, cfg, trace, describe=None, max_findings=25, timeout=1800):
    """Validate a recorded trace; every rejected event is a violation (or a
    listed known finding); validation resumes after the rejected segment so
    the rest of the trace is still checked."""
    log("[trace] %s: %s" % (name, trace))
    offset = 0
    cur = trace
    total_states = 0
    matched_total = 0
    findings = 0
    nlines = sum(1 for _ in open(trace))
    while True:
        ok, n, states, out = validate_trace(spec, cfg, cur, os.path.join(ctx.work, "tlc_" + name), timeout=timeout)
        total_states += states
        if ok:
            matched_total += n
            break
        d = offset + n                       # absolute line of the first unmatched event
        matched_total += n - 1
        start, end, _ = segment_bounds(trace, d, SEG_MARKER.get(spec, '"ev":"Reset"'))
        ev = read_events(trace, d, d)[0]
        seg = os.path.join(ctx.work, "%s_rejected_%d.ndjson" % (name, findings + 1))
        write_slice(trace, seg, start, d)
        short = json.dumps(ev)
        if len(short) > 700:
            short = short[:700] + "..."
        what = "%s: event %d (%s) is not a behaviour of %s: %s" % (name, d, ev.get("ev"), spec, short)
        obj = {"scenario": name, "spec": spec, "trace_segment": seg, "event_line_in_segment": d - start + 1, "event": slim(ev)}
        if describe:
            obj["context"] = describe(trace, start, d)
        ctx.violation(what, obj)
        findings += 1
        if findings >= max_findings or end >= nlines:
            break
        # resume after the rejected segment
        rest = os.path.join(ctx.work, "%s_rest.ndjson" % name)
        write_slice(trace, rest, end + 1, nlines)
        cur = rest
        offset = end
    ctx.states += total_states
    ctx.transitions += total_states
    ctx.traces += 1
    ctx.evaluations += matched_total
    ctx.stages.append({"stage": name, "kind": "trace_validation", "spec": spec, "events": nlines, "events_matched": matched_total,
                       "rejected": findings, "tlc_states": total_states})
    return findings == 0


def slim(ev):
    """An event with long arrays shortened, for replay files and messages."""
    def cut(x):
        if isinstance(x, list) and len(json.dumps(x)) > 400:
            return ["(len %d)" % len(x)] + [cut(y) for y in x[:3]]
        if isinstance(x, dict):
            return {k: cut(v) for k, v in x.items()}
        return x
    return cut(ev)


def negative_control(ctx, name, spec, cfg, trace, mutate, pick):
    """Corrupt one field of one accepted event and require rejection: shows the
    trace spec constrains more than the trace's length."""
    target = None
    with open(trace) as f:
        for i, line in enumerate(f, 1):
            if pick(line):
                target = i
                if i > 50:
                    break
    if target is None:
        raise ToolError("negative control for %s: no event to corrupt" % name)
    start, end, _ = segment_bounds(trace, target, SEG_MARKER.get(spec, '"ev":"Reset"'))
    seg = os.path.join(ctx.work, "%s_negctl.ndjson" % name)
    with open(trace) as f, open(seg, "w") as g:
        for i, line in enumerate(f, 1):
            if i < start:
                continue
            if i > end:
                break
            if i == target:
                ev = json.loads(line)
                ev2 = mutate(ev)
                g.write(json.dumps(ev2) + "\n")
            else:
                g.write(line)
    ok, n, states, out = validate_trace(spec, cfg, seg, os.path.join(ctx.work, "tlc_neg_" + name))
    if ok:
        raise ToolError("vacuous binding: corrupted trace %s was accepted (%s)" % (seg, name))
    ctx.stages.append({"stage": name + "-negative-control", "kind": "corrupted trace rejected", "event": target - start + 1, "rejected_at": n})
    ctx.states += states
    return True


def sample_events(ctx, trace, pred, n=3):
    k = 0
    with open(trace) as f:
        for line in f:
            if pred(line):
                ctx.sample(slim(json.loads(line)))
                k += 1
                if k >= n:
                    break
