#!/usr/bin/env python3
"""bin/save_mutant.py <outdir> <name> <property> <caught_by> <ran...>: keep a confirmed seeded change under /verif/seeded/<name>/"""
import json, os, shutil, sys
out, name, prop, caught = sys.argv[1:5]
ran = sys.argv[5:]
d = os.path.join('/verif/seeded', name)
os.makedirs(d, exist_ok=True)
shutil.copy(os.path.join(out, 'patch.diff'), d)
for f in os.listdir(out):
    if f.startswith('demo'):
        shutil.copy(os.path.join(out, f), d)
meta = {}
try:
    meta = json.load(open(os.path.join(out, 'meta.json')))
except Exception:
    pass
meta.update({"property": prop, "caught_by": caught, "confirmed": ran})
json.dump(meta, open(os.path.join(d, 'meta.json'), 'w'), indent=1)
print("saved", d)
