#!/usr/bin/env python3
"""Regenerates the table of Appendix B in DESIGN.md from seeded/*/meta.json."""
import glob
import json
import os
import re

VERIF = os.path.dirname(os.path.dirname(os.path.abspath(__file__)))


def cut(s, n):
    s = " ".join(s.split()).replace("|", "/")
    return s if len(s) <= n else s[:n - 1] + "…"


def main():
    rows = []
    stars = 0
    for d in sorted(glob.glob(os.path.join(VERIF, "seeded", "C*_*"))):
        m = json.load(open(os.path.join(d, "meta.json")))
        name = os.path.basename(d)
        caught = m.get("caught_by", "")
        # strengthened = the text says "bin/check Cxx after <what was added>" (or the entry says so explicitly)
        star = bool(re.match(r"bin/check C\d\d after ", caught)) or bool(m.get("strengthened"))
        stars += star
        rows.append("| %s%s | %s | %s |" % (name, " ★" if star else "", cut(m.get("needs", ""), 170), cut(caught, 230)))
    p = os.path.join(VERIF, "DESIGN.md")
    s = open(p).read()
    head = "| seeded change | needs (from its author) | caught by |\n|---|---|---|\n"
    i = s.index(head)
    j = i + len(head)
    k = j
    while k < len(s) and s[k] == "|":
        k = s.index("\n", k) + 1
    s = s[:j] + "\n".join(rows) + "\n" + s[k:]
    s = re.sub(r"\*\*\d+ of \d+ are caught; \d+ \(★\)", "**%d of %d are caught; %d (★)" % (len(rows), len(rows), stars), s)
    s = re.sub(r"all \d+ independently seeded changes", "all %d independently seeded changes" % len(rows), s)
    open(p, "w").write(s)
    print("Appendix B: %d rows, %d starred" % (len(rows), stars))


if __name__ == "__main__":
    main()
